// storevc: checks that need the virtual wall clock (C10, C07). Build with the vclock overlay.
package main

import (
	"bufio"
	"bytes"
	"context"
	"encoding/json"
	"flag"
	"fmt"
	"os"
	"os/exec"
	"runtime"
	"strings"
	"sync"
	"time"

	"github.com/youzan/ZanRedisDB/common"
	"zmc/ev"
	"zmc/storemc"
	"zmc/storevc"
)

func main() {
	prop := flag.String("prop", "C10", "")
	tier := flag.String("tier", "quick", "")
	replay := flag.String("replay", "", "")
	flag.Parse()
	if *replay != "" {
		fmt.Println("see", *replay, "- the path, engine and clocks are recorded; re-run the check to re-execute")
		os.Exit(1)
	}
	switch *prop {
	case "C10":
		os.Exit(runC10(*tier))
	case "C07":
		os.Exit(runC07(*tier))
	}
	fmt.Println("INFRA: unknown property")
	os.Exit(2)
}

func runC10(tier string) int {
	quick := tier == "quick"
	col := ev.NewCollector("C10", tier, "model_checking")
	dl := ev.NewDeadline(ev.EnvDur("VERIF_BUDGET", map[bool]time.Duration{true: 150 * time.Second, false: 20 * time.Minute}[quick]))
	engines := []string{"mem-skiplist", "pebble"}
	if !quick {
		engines = append(engines, "mem-btree")
	}
	states, trans, expiredStates, swept := 0, 0, 0, 0
	exhaustive := true
	var per []interface{}
	// the virtual clock is one process-wide variable: searches run one after the other
	for _, eng := range engines {
		for _, u := range storevc.TTLUniverses() {
			for _, nsOff := range []int32{0, 999999000} {
				depth := 5
				if quick {
					depth = 4
				}
				if eng != "mem-skiplist" {
					depth--
					if nsOff != 0 {
						continue
					}
				}
				s := storemc.Open(storemc.Options{Engine: eng, Policy: common.WaitCompact, DataVer: common.ValueHeaderV1, Leader: true})
				label := fmt.Sprintf("%s/wait_compact/%s/ns+%d", eng, u.Name, nsOff)
				t0 := time.Now()
				res := storevc.RunTTL(s, u, nsOff, depth, col, label, dl)
				s.Destroy()
				states += res.States
				trans += res.Transitions
				expiredStates += res.ExpiredObserved
				swept += res.SweepRemoved
				if res.DeadlineHit {
					exhaustive = false
				}
				per = append(per, map[string]interface{}{"search": label, "states": res.States, "transitions": res.Transitions, "depth": res.Depth, "bound": depth, "deadline_hit": res.DeadlineHit,
					"states_with_an_expired_key": res.ExpiredObserved, "keys_removed_by_sweeps": res.SweepRemoved, "wall_s": time.Since(t0).Seconds()})
				fmt.Printf("[C10] %s: states=%d transitions=%d depth=%d/%d expired-states=%d swept=%d deadline=%v %.1fs\n", label, res.States, res.Transitions, res.Depth, depth, res.ExpiredObserved, res.SweepRemoved, res.DeadlineHit, time.Since(t0).Seconds())
			}
		}
		// non-monotonic log clocks (skewed leaders), every command triple of every universe
		if eng == "mem-skiplist" || !quick {
			for _, u := range storevc.TTLUniverses() {
				s := storemc.Open(storemc.Options{Engine: eng, Policy: common.WaitCompact, DataVer: common.ValueHeaderV1, Leader: true})
				t0 := time.Now()
				runs, ok := storevc.RunSkew(s, u, col, fmt.Sprintf("%s/wait_compact/%s/skew", eng, u.Name), dl)
				s.Destroy()
				trans += runs
				if !ok {
					exhaustive = false
				}
				per = append(per, map[string]interface{}{"search": eng + "/wait_compact/" + u.Name + "/non-monotonic-log-clocks", "command_triples": runs, "complete": ok, "wall_s": time.Since(t0).Seconds()})
				fmt.Printf("[C10] %s/wait_compact/%s: non-monotonic log clocks: triples=%d complete=%v %.1fs\n", eng, u.Name, runs, ok, time.Since(t0).Seconds())
			}
		}
		// local_deletion: scans never remove early
		s := storemc.Open(storemc.Options{Engine: eng, Policy: common.LocalDeletion, DataVer: common.DefaultDataVer, Leader: true})
		d := 3
		if quick || eng != "mem-skiplist" {
			d = 2
		}
		t0 := time.Now()
		runs, removed, ok := storevc.RunLocalDeletion(s, col, eng+"/local_deletion", d, dl)
		s.Destroy()
		trans += runs
		if !ok {
			exhaustive = false
		}
		per = append(per, map[string]interface{}{"search": eng + "/local_deletion/scan-never-early", "scan_runs": runs, "removals_observed": removed, "depth": d, "complete": ok, "wall_s": time.Since(t0).Seconds()})
		fmt.Printf("[C10] %s/local_deletion: scan runs=%d removals observed=%d depth=%d complete=%v %.1fs\n", eng, runs, removed, d, ok, time.Since(t0).Seconds())
	}
	col.Set("states", states)
	col.Set("transitions", trans)
	col.Set("traces_validated_against_impl", trans)
	col.Set("exhaustive", exhaustive)
	col.Set("searches", per)
	col.Set("states_with_an_expired_key", expiredStates)
	col.Set("keys_removed_by_compaction_sweeps", swept)
	col.Set("rule", "wait_compact: BFS over (physical store dump, log clock 0..3 s) of per-type TTL universes; transitions = every command of the alphabet at the current log clock (whole second and +999999999 ns variants), advance-1s, compact-sweep (every stored key through the real compaction filter at a wall clock 48h ahead); after every transition the real read handlers are evaluated at the frozen wall clocks L, L+1, L+2 and compared with a two-clock reference model (expired iff now_sec >= ExpireAt, TTL = ExpireAt - now_sec, writes on expired data start from empty, SET/GETSET/PERSIST clear, modifying commands keep). local_deletion: every command sequence up to the depth x an expiry scan at every wall clock 0..4: nothing is removed before the earliest time it was given")
	for _, u := range storevc.TTLUniverses() {
		col.Sample(map[string]interface{}{"universe": u.Name, "commands": u.Cmds})
	}
	col.Assume = []string{"time.Now() frozen by a build-overlay of GOROOT/src/time (monotonic clock, timers untouched)", "compaction legal only up to the 48h lazy margin ahead of the log clock (the code's documented clock-skew tolerance)",
		"mem and pebble do not wire the compaction filter; the sweep calls the real filter on every stored key"}
	if expiredStates == 0 && col.NumViolationSigs() == 0 {
		fmt.Println("INFRA: vacuous (no state with an expired key)")
		col.Finish()
		return 2
	}
	return col.Finish()
}

var c07Policies = []struct {
	name string
	p    common.ExpirationPolicy
	v    common.DataVersionT
}{{"wait_compact", common.WaitCompact, common.ValueHeaderV1}, {"local_deletion", common.LocalDeletion, common.DefaultDataVer}}

// runC07Shard: one (policy, family) cell in its own process (the virtual clock is one process-wide variable,
// so the cells cannot share a process); prints its statistics and the first violation per signature.
func runC07Shard(spec, tier string) int {
	parts := strings.SplitN(spec, "/", 2)
	os.Setenv("VERIF_C07_FAMILY", parts[1])
	col := ev.NewCollector("C07", tier, "exploration")
	dl := ev.NewDeadline(ev.EnvDur("VERIF_BUDGET", time.Minute))
	maxLen := 3
	if tier == "quick" {
		maxLen = 2
	}
	for _, p := range c07Policies {
		if p.name != parts[0] {
			continue
		}
		st, ok := storevc.RunDeterminism(col, []string{"mem-skiplist", "pebble"}, p.name, p.p, p.v, maxLen, dl)
		b, _ := json.Marshal(map[string]interface{}{"logs": st.Logs, "runs": st.Runs, "complete": ok})
		fmt.Println("STATS " + string(b))
	}
	for _, v := range col.Violations() {
		b, _ := json.Marshal(v)
		fmt.Println("VIOL " + string(b))
	}
	return 0
}

func runC07(tier string) int {
	if spec := os.Getenv("VERIF_C07_SHARD"); spec != "" {
		return runC07Shard(spec, tier)
	}
	quick := tier == "quick"
	col := ev.NewCollector("C07", tier, "exploration")
	budget := ev.EnvDur("VERIF_BUDGET", map[bool]time.Duration{true: 300 * time.Second, false: 20 * time.Minute}[quick])
	start := time.Now()
	maxLen := 3
	if quick {
		maxLen = 2
	}
	logs, runs := 0, 0
	exhaustive := true
	per := map[string]interface{}{}
	type cell struct {
		pol, fam   string
		logs, runs int
		complete   bool
		wall       float64
		err        string
	}
	var cells []*cell
	for _, p := range c07Policies {
		for _, f := range storevc.Families() {
			if only := os.Getenv("VERIF_C07_FAMILY"); only != "" && only != f.Name {
				continue // debugging aid, never set by a registered command
			}
			cells = append(cells, &cell{pol: p.name, fam: f.Name})
		}
	}
	sem := make(chan struct{}, runtime.NumCPU())
	var wg sync.WaitGroup
	var mu sync.Mutex
	for _, c := range cells {
		wg.Add(1)
		go func(c *cell) {
			defer wg.Done()
			sem <- struct{}{}
			defer func() { <-sem }()
			left := budget - time.Since(start)
			if left < time.Second {
				left = time.Second
			}
			t0 := time.Now()
			// a worker that does not come back (it honours the budget itself) is killed a minute after its deadline
			ctx, cancel := context.WithTimeout(context.Background(), left+time.Minute)
			defer cancel()
			cmd := exec.CommandContext(ctx, os.Args[0], "-prop", "C07", "-tier", tier)
			cmd.Env = append(os.Environ(), "VERIF_C07_SHARD="+c.pol+"/"+c.fam, "VERIF_BUDGET="+left.String())
			var errb bytes.Buffer
			cmd.Stderr = &errb
			out, err := cmd.Output()
			c.wall = time.Since(t0).Seconds()
			got := false
			sc := bufio.NewScanner(bytes.NewReader(out))
			sc.Buffer(make([]byte, 1<<20), 16<<20)
			for sc.Scan() {
				l := sc.Text()
				if strings.HasPrefix(l, "STATS ") {
					var st struct {
						Logs, Runs int
						Complete   bool
					}
					if json.Unmarshal([]byte(l[6:]), &st) == nil {
						c.logs, c.runs, c.complete, got = st.Logs, st.Runs, st.Complete, true
					}
				}
				if strings.HasPrefix(l, "VIOL ") {
					var v ev.Violation
					if json.Unmarshal([]byte(l[5:]), &v) == nil {
						mu.Lock()
						col.Add(v)
						mu.Unlock()
					}
				}
			}
			if ctx.Err() != nil {
				// no verdict from this cell: reported as not completed, never as a violation
				fmt.Printf("[C07] worker %s/%s did not finish within its budget + 60 s and was stopped\n", c.pol, c.fam)
				c.complete = false
				return
			}
			if err != nil || !got {
				tail := errb.String()
				if len(tail) > 2000 {
					tail = tail[len(tail)-2000:]
				}
				c.err = fmt.Sprintf("worker %s/%s: %v\n%s", c.pol, c.fam, err, tail)
			}
		}(c)
	}
	wg.Wait()
	for _, p := range c07Policies {
		pl, pr, ok, wall := 0, 0, true, 0.0
		fams := map[string]interface{}{}
		for _, c := range cells {
			if c.pol != p.name {
				continue
			}
			if c.err != "" {
				fmt.Println("INFRA:", c.err)
				return 2
			}
			pl += c.logs
			pr += c.runs
			ok = ok && c.complete
			wall += c.wall
			fams[c.fam] = map[string]interface{}{"logs": c.logs, "runs": c.runs, "complete": c.complete, "wall_s": c.wall}
		}
		logs += pl
		runs += pr
		if !ok {
			exhaustive = false
		}
		per[p.name] = map[string]interface{}{"logs": pl, "runs": pr, "max_len": maxLen, "complete": ok, "cpu_s": wall, "families": fams}
		fmt.Printf("[C07] %s: logs=%d runs=%d complete=%v (one worker process per family, %.1f s of work)\n", p.name, pl, pr, ok, wall)
	}
	col.Set("evaluations", runs)
	col.Set("distinct_nontrivial", logs)
	col.Set("exhaustive", exhaustive)
	col.Set("per_policy", per)
	col.Set("rule", "every command log up to the length bound from per-family pools (kv, hash, list, set, zset, bitmap, HyperLogLog, JSON, TTL) x 4 timestamp patterns (+1ns, +1s, +1s-1ns, second edges) x every chunking into apply batches x live/replaying x leader/follower (waiters registered or not) x wall-clock offset {0,+1e6 s,-1e6 s} (frozen virtual clock during apply) x engine {mem-skiplist, pebble}, plus a restart of the replica between any two entries (engine content kept, everything held in memory dropped; tail applied live and as a replay; not for the HyperLogLog family); compared with the canonical run (one entry per batch, live, leader, offset 0, mem-skiplist): replies per request, data read at two common virtual clocks, stored bytes within an engine. non-trivial = distinct logs")
	for _, f := range storevc.Families() {
		col.Sample(map[string]interface{}{"family": f.Name, "pool": f.Pool})
	}
	col.Assume = []string{"expiry scans of the local_deletion policy are not run here (the documented exception); they are C10's subject", "the restart between two entries keeps the engine content through a dump/clean/load of the same store object; a restart through checkpoint + log replay of a real process is C14 and C06"}
	return col.Finish()
}
