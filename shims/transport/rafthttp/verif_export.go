//go:build verif

// Injected by /verif (go build -overlay); never part of the repository.
package rafthttp

import (
	"io"

	"github.com/youzan/ZanRedisDB/pkg/types"
	"github.com/youzan/ZanRedisDB/raft/raftpb"
	"github.com/youzan/ZanRedisDB/stats"
)

// VerifV2State is the context both ends of a msgappv2 stream carry.
type VerifV2State struct {
	Term, Index uint64
	From, To    raftpb.Group
}

type VerifV2Enc struct{ e *msgAppV2Encoder }
type VerifV2Dec struct{ d *msgAppV2Decoder }

func VerifNewV2Enc(w io.Writer) *VerifV2Enc {
	return &VerifV2Enc{newMsgAppV2Encoder(w, stats.NewPeersStats().Peer("1"))}
}
func (v *VerifV2Enc) SetWriter(w io.Writer)          { v.e.w = w }
func (v *VerifV2Enc) Encode(m *raftpb.Message) error { return v.e.encode(m) }
func (v *VerifV2Enc) State() VerifV2State {
	return VerifV2State{v.e.term, v.e.index, v.e.FromGroup, v.e.ToGroup}
}
func (v *VerifV2Enc) SetState(s VerifV2State) {
	v.e.term, v.e.index, v.e.FromGroup, v.e.ToGroup = s.Term, s.Index, s.From, s.To
}

func VerifNewV2Dec(r io.Reader, local, remote uint64) *VerifV2Dec {
	return &VerifV2Dec{newMsgAppV2Decoder(r, types.ID(local), types.ID(remote))}
}
func (v *VerifV2Dec) SetReader(r io.Reader)           { v.d.r = r }
func (v *VerifV2Dec) Decode() (raftpb.Message, error) { return v.d.decode() }
func (v *VerifV2Dec) State() VerifV2State {
	return VerifV2State{v.d.term, v.d.index, v.d.FromGroup, v.d.ToGroup}
}
func (v *VerifV2Dec) SetState(s VerifV2State) {
	v.d.term, v.d.index, v.d.FromGroup, v.d.ToGroup = s.Term, s.Index, s.From, s.To
}

type VerifMsgDec struct{ d *messageDecoder }

func VerifEncodeMsg(w io.Writer, m *raftpb.Message) error { return (&messageEncoder{w: w}).encode(m) }
func VerifNewMsgDec(r io.Reader) *VerifMsgDec             { return &VerifMsgDec{newMessageDecoder(r)} }
func (v *VerifMsgDec) SetReader(r io.Reader)              { v.d.r = r }
func (v *VerifMsgDec) Decode() (raftpb.Message, error)    { return v.d.decode() }

func VerifLinkHeartbeat() raftpb.Message { return linkHeartbeatMessage }
