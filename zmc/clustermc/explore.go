package clustermc

import (
	"fmt"
	"hash/fnv"
	"strconv"
	"strings"

	"github.com/anishathalye/porcupine"
)

// ---- one execution -------------------------------------------------------------------------------------

type Point struct {
	Enabled []Event
	Chosen  int
}

type Exec struct {
	Points    []Point
	Choices   []int
	Devs      int
	History   []*OpRec
	Final     []string
	Healed    bool
	Infra     string
	Trace     []string
	Violation string
	Sig       string
}

type Scenario struct {
	Name    string
	Progs   [][]Op
	Keys    [][]string // final reads
	Max     Budget
	Horizon int
	Engine  string // "" = mem
}

func cost(e Event, idx int) int {
	if idx == 0 {
		return 0
	}
	return 1
}

func usedBy(b *Budget, e Event) {
	switch e.Kind {
	case "drop":
		b.Drop++
	case "dup":
		b.Dup++
	case "stop", "kill":
		b.Stop++
	case "transfer":
		b.Transfer++
	case "tick":
		b.Tick++
	case "timeout":
		if e.B == 0 {
			b.Timeout++
		}
	}
}

// Run replays the choice prefix (an out-of-range choice is a hard error), then takes the default at every later point.
func Run(sc Scenario, prefix []int, verbose bool) *Exec {
	x := &Exec{}
	eng := sc.Engine
	if eng == "" {
		eng = "mem"
	}
	c, err := NewWith(sc.Progs, eng)
	if err != nil {
		x.Infra = "start: " + err.Error()
		if c != nil {
			c.Close()
		}
		return x
	}
	defer c.Close()
	c.Verbose = verbose
	var used Budget
	for step := 0; step < sc.Horizon; step++ {
		evs := c.Enabled(used, sc.Max)
		if len(evs) == 0 {
			break
		}
		ch := 0
		if step < len(prefix) {
			ch = prefix[step]
			if ch >= len(evs) {
				x.Infra = fmt.Sprintf("replay diverged at step %d: choice %d of %d enabled %v", step, ch, len(evs), evs)
				return x
			}
		} else if evs[0].Kind != "start" && evs[0].Kind != "deliver" && !(evs[0].Kind == "timeout" && evs[0].B == 1) {
			break // nothing left to do by default (only faults are enabled)
		}
		x.Points = append(x.Points, Point{Enabled: evs, Chosen: ch})
		x.Choices = append(x.Choices, ch)
		x.Devs += cost(evs[ch], ch)
		usedBy(&used, evs[ch])
		if !c.Apply(evs[ch]) {
			x.Infra = c.InfraErr()
			return x
		}
	}
	x.Healed = c.Heal()
	x.History = c.History()
	x.Final = c.FinalReads(sc.Keys)
	x.Trace = c.Trace
	if c.InfraErr() != "" {
		x.Infra = c.InfraErr()
	}
	return x
}

// Fingerprint of the enabled sets along an execution (replay determinism check).
func (x *Exec) Fingerprint(upto int) uint64 {
	h := fnv.New64a()
	for i, p := range x.Points {
		if i >= upto {
			break
		}
		for _, e := range p.Enabled {
			h.Write([]byte(e.String()))
		}
		h.Write([]byte{byte(p.Chosen), 0})
	}
	return h.Sum64()
}

// ---- oracle ------------------------------------------------------------------------------------------------

type kvIn struct {
	Cmd string
	Key string
	Arg string
}

type kvOut struct {
	Val     string
	Unknown bool
}

// sequential specification: per key a string value ("" = absent); incr, getset, setnx, get.
var kvModel = porcupine.Model{
	Partition: func(history []porcupine.Operation) [][]porcupine.Operation {
		m := map[string][]porcupine.Operation{}
		var keys []string
		for _, o := range history {
			k := o.Input.(kvIn).Key
			if _, ok := m[k]; !ok {
				keys = append(keys, k)
			}
			m[k] = append(m[k], o)
		}
		var out [][]porcupine.Operation
		for _, k := range keys {
			out = append(out, m[k])
		}
		return out
	},
	Init: func() interface{} { return "\x00" },
	Step: func(state, input, output interface{}) (bool, interface{}) {
		st := state.(string)
		in := input.(kvIn)
		out := output.(kvOut)
		absent := st == "\x00"
		switch in.Cmd {
		case "incr":
			v := int64(0)
			if !absent {
				var err error
				v, err = strconv.ParseInt(st, 10, 64)
				if err != nil {
					return out.Unknown, st
				}
			}
			nv := strconv.FormatInt(v+1, 10)
			return out.Unknown || out.Val == nv, nv
		case "getset":
			old := "nil"
			if !absent {
				old = fmt.Sprintf("%q", st)
			}
			return out.Unknown || out.Val == old, in.Arg
		case "setnx":
			if absent {
				return out.Unknown || out.Val == "1", in.Arg
			}
			return out.Unknown || out.Val == "0", st
		case "get":
			cur := "nil"
			if !absent {
				cur = fmt.Sprintf("%q", st)
			}
			return out.Val == cur, st
		}
		return false, st
	},
	Equal: func(a, b interface{}) bool { return a.(string) == b.(string) },
	DescribeOperation: func(input, output interface{}) string {
		return fmt.Sprintf("%v -> %v", input, output)
	},
}

const inf = int64(1) << 50

// Check: the recorded history plus the final reads of every replica against the sequential specification.
func Check(sc Scenario, x *Exec) {
	if x.Infra != "" {
		return
	}
	if !x.Healed {
		x.Violation = "after the faults ended (every replica restarted, every message delivered, clocks ticking) the cluster does not settle on one leader with every entry applied everywhere"
		x.Sig = "does-not-settle"
		return
	}
	for i := 1; i < len(x.Final); i++ {
		if x.Final[i] != x.Final[0] {
			x.Violation = fmt.Sprintf("after the cluster settled the replicas serve different data: replica 1 {%s} replica %d {%s}", x.Final[0], i+1, x.Final[i])
			x.Sig = "replicas-differ"
			return
		}
	}
	var ops []porcupine.Operation
	last := int64(0)
	for _, o := range x.History {
		in := kvIn{Cmd: strings.ToLower(o.Cmd[0]), Key: o.Cmd[1]}
		if len(o.Cmd) > 2 {
			in.Arg = o.Cmd[2]
		}
		op := porcupine.Operation{ClientId: o.Client, Input: in, Call: o.Call}
		switch {
		case o.Return == 0 || o.Err != "":
			// no reply or an error: may take effect once at any later time, or never
			op.Return = inf
			op.Output = kvOut{Unknown: true}
		default:
			op.Return = o.Return
			op.Output = kvOut{Val: o.Reply}
		}
		if o.Return > last {
			last = o.Return
		}
		if o.Call > last {
			last = o.Call
		}
		ops = append(ops, op)
	}
	// an unanswered call may still be in the log; the final reads happen after the cluster settled,
	// i.e. after every entry that will ever be applied: close the open calls just before them
	for i := range ops {
		if ops[i].Return == inf {
			ops[i].Return = last + 1
		}
	}
	t := last + 2
	// final reads of replica 1 (all replicas were compared above)
	for _, k := range sc.Keys {
		want := ""
		for _, part := range strings.Split(x.Final[0], "; ") {
			if strings.HasPrefix(part, strings.Join(k, " ")+"=") {
				want = strings.TrimPrefix(part, strings.Join(k, " ")+"=")
			}
		}
		ops = append(ops, porcupine.Operation{ClientId: 100, Input: kvIn{Cmd: "get", Key: k[1]}, Call: t, Return: t + 1, Output: kvOut{Val: want}})
		t += 2
	}
	// a call whose outcome is unknown takes effect at most once: it may also never have happened.
	// The history is accepted if it is linearizable for some choice of which of them happened.
	var unk []int
	for i, op := range ops {
		if o, ok := op.Output.(kvOut); ok && o.Unknown {
			unk = append(unk, i)
		}
	}
	okAny := false
	for mask := 0; mask < 1<<len(unk) && !okAny; mask++ {
		dropped := map[int]bool{}
		for b, i := range unk {
			if mask&(1<<b) != 0 {
				dropped[i] = true
			}
		}
		var sub []porcupine.Operation
		for i, op := range ops {
			if !dropped[i] {
				sub = append(sub, op)
			}
		}
		if porcupine.CheckOperations(kvModel, sub) {
			okAny = true
		}
	}
	if !okAny {
		var hs []string
		for _, o := range x.History {
			r := o.Reply
			if o.Err != "" {
				r = "ERR(" + o.Err + ")"
			}
			if o.Return == 0 {
				r = "(no reply)"
			}
			hs = append(hs, fmt.Sprintf("client %d %v at replica %d [%d,%d] -> %s", o.Client, o.Cmd[:len(o.Cmd)], o.Node, o.Call, o.Return, r))
		}
		x.Violation = fmt.Sprintf("the history is not linearizable: %s; final data {%s}", strings.Join(hs, " | "), x.Final[0])
		x.Sig = "not-linearizable"
	}
}
