#!/bin/bash
# thorough-validate.sh [budget] : run every thorough command with a short budget (checks honour VERIF_BUDGET and
# report exhaustive:false when it ends); output to a scratch directory, not to evidence/.
B=${1:-150s}
for id in C01 C02 C03 C04 C05 C06 C07 C08 C09 C10 C11 C12 C13 C14 C15 C16 C17 C18 C19 C20; do
  s=$(date +%s)
  VERIF_BUDGET=$B VERIF_OUT=/tmp/thorough-validate/$id /verif/check $id thorough > /tmp/thorough-validate-$id.log 2>&1
  rc=$?
  echo "$id thorough(budget $B) exit=$rc $(( $(date +%s) - s ))s violations=$(grep -c '^VIOLATION' /tmp/thorough-validate-$id.log)"
done
