// Package placemc: C17 — the placement driver's layout function on every topology of
// enumerated families, and (v2) BFS over (live node set, layout) under node loss/addition.
package placemc

import (
	"fmt"
	"sort"
	"strings"

	"github.com/youzan/ZanRedisDB/cluster"
	pd "github.com/youzan/ZanRedisDB/cluster/pdnode_coord"
	"zmc/ev"
)

type Topo []int // nodes per data centre

func (t Topo) String() string { return fmt.Sprint([]int(t)) }
func (t Topo) Total() int {
	n := 0
	for _, x := range t {
		n += x
	}
	return n
}
func (t Topo) Even() bool {
	for _, x := range t {
		if x != t[0] {
			return false
		}
	}
	return true
}

func nodeName(dc, i int) string { return fmt.Sprintf("n%02d-dc%d", i, dc) }

func dcOf(name string) string { return name[strings.Index(name, "-dc")+3:] }

// nodes builds the map in a given insertion order (permute != 0 reverses it).
func nodesOf(names []string, permute bool) map[string]cluster.NodeInfo {
	m := map[string]cluster.NodeInfo{}
	order := append([]string(nil), names...)
	if permute {
		for i, j := 0, len(order)-1; i < j; i, j = i+1, j-1 {
			order[i], order[j] = order[j], order[i]
		}
	}
	for _, n := range order {
		if dcOf(n) == untaggedDC {
			// a node that was never given a data centre tag (it belongs to the default, unnamed one)
			m[n] = cluster.NodeInfo{ID: n}
			continue
		}
		m[n] = cluster.NodeInfo{ID: n, Tags: map[string]interface{}{cluster.DCInfoTag: "dc" + dcOf(n)}}
	}
	return m
}

// untaggedDC: the nodes of this data centre number carry no tag in the node maps built by nodesOf ("" = all tagged).
var untaggedDC string

func (t Topo) Names() []string {
	var out []string
	for dc, cnt := range t {
		for i := 0; i < cnt; i++ {
			out = append(out, nodeName(dc+1, i+1))
		}
	}
	return out
}

// compositions of n into 1..maxParts positive parts
func compositions(n, maxParts int) []Topo {
	var out []Topo
	var rec func(rem int, cur []int)
	rec = func(rem int, cur []int) {
		if rem == 0 {
			out = append(out, append(Topo(nil), cur...))
			return
		}
		if len(cur) == maxParts {
			return
		}
		for x := 1; x <= rem; x++ {
			rec(rem-x, append(cur, x))
		}
	}
	rec(n, nil)
	return out
}

type Stats struct {
	Layouts, Refusals, EvenSpreadChecked, LeaderBalanceChecked int
	BFSStates, BFSTransitions                                  int
}

func layoutStr(l [][]string) string {
	var sb strings.Builder
	for i, p := range l {
		fmt.Fprintf(&sb, "p%d=%v ", i, p)
	}
	return sb.String()
}

func equalLayout(a, b [][]string) bool {
	if len(a) != len(b) {
		return false
	}
	for i := range a {
		if len(a[i]) != len(b[i]) {
			return false
		}
		for j := range a[i] {
			if a[i][j] != b[i][j] {
				return false
			}
		}
	}
	return true
}

// rebalancedNoPanic calls the real placement function and turns a panic into a reportable outcome.
func rebalancedNoPanic(ns string, parts, replica int, old [][]string, nodes map[string]cluster.NodeInfo, ver string) (l [][]string, refused bool, other string, panicked string) {
	defer func() {
		if r := recover(); r != nil {
			panicked = fmt.Sprint(r)
		}
	}()
	l, refused, other = pd.VerifRebalanced(ns, parts, replica, old, nodes, ver)
	return
}

// checkLayout: the per-layout oracle shared by fresh layouts and BFS transitions.
func checkLayout(col *ev.Collector, ver, ns string, names []string, parts, replica int, old [][]string, what string) ([][]string, bool) {
	live := map[string]bool{}
	for _, n := range names {
		live[n] = true
	}
	report := func(sig, msg string) {
		col.Add(ev.Violation{Property: "C17", Signature: "C17|" + ver + "|" + sig, What: fmt.Sprintf("%s: %s [%s, ns %q, %d partitions x %d replicas, nodes %v, previous layout {%s}]", ver, msg, what, ns, parts, replica, names, layoutStr(old)),
			Replay: map[string]interface{}{"ver": ver, "ns": ns, "nodes": names, "partitions": parts, "replica": replica, "old": old}})
	}
	l1, refused, other, panicked := rebalancedNoPanic(ns, parts, replica, old, nodesOf(names, false), ver)
	if panicked != "" {
		// neither a layout nor a refusal: in the daemon this kills the placement loop of the leader PD
		report("panic", "the placement computation panicked: "+panicked)
		return nil, false
	}
	if refused || other != "" {
		if other != "" || len(names) >= replica {
			report("refused-with-enough-nodes", fmt.Sprintf("refused (%v) although %d nodes >= %d replicas", other, len(names), replica))
		}
		return nil, false
	}
	if len(names) < replica {
		report("degraded-layout", fmt.Sprintf("produced a layout with only %d nodes for %d replicas: {%s}", len(names), replica, layoutStr(l1)))
		return nil, true
	}
	if len(l1) != parts {
		report("partition-count", fmt.Sprintf("%d partitions in the result", len(l1)))
		return l1, true
	}
	for p, rs := range l1 {
		if len(rs) != replica {
			report("replica-count", fmt.Sprintf("partition %d has %d replicas: {%s}", p, len(rs), layoutStr(l1)))
			return l1, true
		}
		seen := map[string]bool{}
		for _, n := range rs {
			if !live[n] {
				report("replica-on-dead-or-unknown-node", fmt.Sprintf("partition %d placed on %q which is not a live node: {%s}", p, n, layoutStr(l1)))
				return l1, true
			}
			if seen[n] {
				report("two-replicas-one-node", fmt.Sprintf("partition %d has two replicas on %q: {%s}", p, n, layoutStr(l1)))
				return l1, true
			}
			seen[n] = true
		}
	}
	// determinism: same inputs (maps built in another insertion order, fresh copies) → same output
	oldCopy := make([][]string, len(old))
	for i := range old {
		oldCopy[i] = append([]string(nil), old[i]...)
	}
	l2, ref2, oth2, _ := rebalancedNoPanic(ns, parts, replica, oldCopy, nodesOf(names, true), ver)
	if ref2 || oth2 != "" || !equalLayout(l1, l2) {
		report("nondeterministic", fmt.Sprintf("two calls with the same inputs differ: {%s} vs {%s} (%v %v)", layoutStr(l1), layoutStr(l2), ref2, oth2))
	}
	return l1, true
}

func RunFresh(col *ev.Collector, maxN int, partsList []int, dl ev.Deadline) (st Stats, complete bool) {
	var topos []Topo
	for n := 1; n <= maxN; n++ {
		topos = append(topos, compositions(n, 4)...)
	}
	// larger families: even and "one DC short"
	for n := 13; n <= 40; n++ {
		for d := 1; d <= 4; d++ {
			if n%d == 0 {
				t := make(Topo, d)
				for i := range t {
					t[i] = n / d
				}
				topos = append(topos, t)
			}
			if d > 1 && (n+1)%d == 0 {
				t := make(Topo, d)
				for i := range t {
					t[i] = (n + 1) / d
				}
				t[d-1]--
				if t[d-1] > 0 {
					topos = append(topos, t)
				}
			}
		}
	}
	// every topology with at least two data centres once more with the nodes of its last data centre untagged
	// (a partly configured cluster): the unnamed data centre is a data centre like the others
	var all []struct {
		t        Topo
		untagged bool
	}
	for _, t := range topos {
		all = append(all, struct {
			t        Topo
			untagged bool
		}{t, false})
		if len(t) >= 2 && t.Total() <= 12 {
			all = append(all, struct {
				t        Topo
				untagged bool
			}{t, true})
		}
	}
	defer func() { untaggedDC = "" }()
	for _, tv := range all {
		t := tv.t
		untaggedDC = ""
		if tv.untagged {
			untaggedDC = fmt.Sprint(len(t))
		}
		if dl.Hit() {
			return st, false
		}
		names := t.Names()
		for _, parts := range partsList {
			for replica := 1; replica <= 5; replica++ {
				for _, ver := range []string{"v1", "v2"} {
					for _, ns := range []string{"a", "test", "ns2"} {
						what := "fresh layout on " + t.String()
						if tv.untagged {
							what += " (last data centre untagged)"
							// iteration over the node map starts at a random element: more calls make a dependence on it show
							checkLayout(col, ver, ns, names, parts, replica, nil, what)
							checkLayout(col, ver, ns, names, parts, replica, nil, what)
						}
						l, ok := checkLayout(col, ver, ns, names, parts, replica, nil, what)
						st.Layouts++
						if !ok {
							st.Refusals++
							continue
						}
						if l == nil {
							continue
						}
						// documented rack awareness: fresh + evenly spread over >= replica DCs
						if t.Even() && len(t) >= replica {
							st.EvenSpreadChecked++
							for p, rs := range l {
								dcs := map[string]bool{}
								for _, n := range rs {
									if dcs[dcOf(n)] {
										col.Add(ev.Violation{Property: "C17", Signature: "C17|" + ver + "|dc-shared",
											What:   fmt.Sprintf("%s: fresh layout on %d DCs x %d nodes, %d partitions x %d replicas (ns %q): partition %d has two replicas in dc%s: %v", ver, len(t), t[0], parts, replica, ns, p, dcOf(n), rs),
											Replay: map[string]interface{}{"ver": ver, "ns": ns, "topology": t, "partitions": parts, "replica": replica}})
										break
									}
									dcs[dcOf(n)] = true
								}
							}
						}
						if ver == "v1" && parts%len(names) == 0 {
							st.LeaderBalanceChecked++
							cnt := map[string]int{}
							for _, rs := range l {
								cnt[rs[0]]++
							}
							for _, n := range names {
								if cnt[n] != parts/len(names) {
									col.Add(ev.Violation{Property: "C17", Signature: "C17|v1|leader-imbalance",
										What: fmt.Sprintf("v1: %d partitions on %d nodes (%s, ns %q, %d replicas): node %s leads %d partitions, expected %d", parts, len(names), t, ns, replica, n, cnt[n], parts/len(names))})
									break
								}
							}
						}
					}
				}
			}
		}
	}
	return st, true
}

// RunHistory: BFS over (live set, layout) for v2 under node loss / addition.
func RunHistory(col *ev.Collector, depth int, dl ev.Deadline) (st Stats, complete bool) {
	type state struct {
		live   []string
		layout [][]string
		path   []string
	}
	key := func(s state) string { return strings.Join(s.live, ",") + "|" + layoutStr(s.layout) }
	for _, topo := range []Topo{{3}, {4}, {2, 2}, {3, 2}, {2, 2, 2}, {3, 2, 2}, {5}} {
		universe := topo.Names()
		spare := Topo(append(append([]int(nil), topo...), 0))
		_ = spare
		// spare nodes that may be added: one more per DC
		var extra []string
		for dc := range topo {
			extra = append(extra, nodeName(dc+1, topo[dc]+1))
		}
		for _, parts := range []int{1, 2, 3, 4, 8} {
			for replica := 1; replica <= 3; replica++ {
				if len(universe) < replica {
					continue
				}
				ns := "test"
				l0, ok := checkLayout(col, "v2", ns, universe, parts, replica, nil, "initial")
				if !ok || l0 == nil {
					continue
				}
				seen := map[string]bool{}
				start := state{live: universe, layout: l0}
				seen[key(start)] = true
				frontier := []state{start}
				st.BFSStates++
				for d := 1; d <= depth && len(frontier) > 0; d++ {
					var next []state
					for _, s := range frontier {
						if dl.Hit() {
							return st, false
						}
						var evs [][2]string
						evs = append(evs, [2]string{"rebalance", ""})
						for _, n := range s.live {
							evs = append(evs, [2]string{"lose", n})
						}
						for _, n := range append(append([]string(nil), universe...), extra...) {
							isLive := false
							for _, l := range s.live {
								if l == n {
									isLive = true
								}
							}
							if !isLive {
								evs = append(evs, [2]string{"add", n})
							}
						}
						for _, e := range evs {
							var live []string
							for _, n := range s.live {
								if !(e[0] == "lose" && n == e[1]) {
									live = append(live, n)
								}
							}
							if e[0] == "add" {
								live = append(live, e[1])
							}
							sort.Strings(live)
							path := append(append([]string(nil), s.path...), strings.TrimSpace(e[0]+" "+e[1]))
							layout := s.layout
							st.BFSTransitions++
							if e[0] == "rebalance" {
								// the layout is recomputed on demand (migrate / balance), not at every
								// membership event: several losses/additions may have piled up
								nl, ok := checkLayout(col, "v2", ns, live, parts, replica, s.layout, fmt.Sprintf("after %v from topology %s", path, topo))
								if ok && nl != nil {
									layout = nl
								}
							}
							ns2 := state{live: live, layout: layout, path: path}
							if k := key(ns2); !seen[k] {
								seen[k] = true
								st.BFSStates++
								next = append(next, ns2)
							}
						}
					}
					frontier = next
				}
			}
		}
	}
	return st, true
}
