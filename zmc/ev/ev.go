// Package ev: evidence files, known findings, violation reporting shared by all checks.
package ev

import (
	"crypto/sha1"
	"encoding/hex"
	"encoding/json"
	"fmt"
	"os"
	"path/filepath"
	"sort"
	"strconv"
	"strings"
	"sync"
	"time"
)

var VerifDir = func() string {
	if d := os.Getenv("VERIF_DIR"); d != "" {
		return d
	}
	return "/verif"
}()

// OutDir receives evidence/ and replays/ (VERIF_OUT redirects them for mutation runs).
var OutDir = func() string {
	if d := os.Getenv("VERIF_OUT"); d != "" {
		return d
	}
	return VerifDir
}()

func Seed() int {
	s, _ := strconv.Atoi(os.Getenv("VERIF_SEED"))
	return s
}

// Violation is one oracle failure. Signature identifies the failing input class
// (matched against known_findings.json); Replay is any JSON-able object from which
// `check <ID> --replay file` re-executes the failure.
type Violation struct {
	Property  string      `json:"property"`
	Signature string      `json:"signature"`
	What      string      `json:"what"`
	Replay    interface{} `json:"replay"`
}

type Finding struct {
	Property  string `json:"property"`
	Status    string `json:"status"` // known | fixed
	Signature string `json:"signature"`
	// Signatures: an explicit list (used instead of a wildcard when the failing inputs of one root cause
	// are many: anything outside the list is a new violation)
	Signatures []string `json:"signatures,omitempty"`
	Commit     string   `json:"commit,omitempty"`
	What       string   `json:"what"`
}

func LoadFindings() []Finding {
	var fs []Finding
	b, err := os.ReadFile(filepath.Join(VerifDir, "known_findings.json"))
	if err != nil {
		return nil
	}
	if err := json.Unmarshal(b, &fs); err != nil {
		fmt.Println("INFRA: known_findings.json unreadable:", err)
		os.Exit(2)
	}
	return fs
}

// Collector gathers violations (grouped by signature) and run statistics.
type Collector struct {
	mu       sync.Mutex
	Property string
	Tier     string
	Level    string
	start    time.Time
	bySig    map[string]*Violation
	sigCount map[string]int
	Cov      map[string]interface{}
	Assume   []string
	samples  []interface{}
	outcomes map[string]int
}

func NewCollector(prop, tier, level string) *Collector {
	return &Collector{Property: prop, Tier: tier, Level: level, start: time.Now(), bySig: map[string]*Violation{},
		sigCount: map[string]int{}, Cov: map[string]interface{}{}, outcomes: map[string]int{}}
}

// Add records a violation; the first (by convention shortest: BFS order) per signature is kept.
func (c *Collector) Add(v Violation) {
	c.mu.Lock()
	defer c.mu.Unlock()
	if v.Property == "" {
		v.Property = c.Property
	}
	c.sigCount[v.Signature]++
	if _, ok := c.bySig[v.Signature]; !ok {
		vv := v
		c.bySig[v.Signature] = &vv
	}
}

func (c *Collector) NumViolationSigs() int {
	c.mu.Lock()
	defer c.mu.Unlock()
	return len(c.bySig)
}

func (c *Collector) Sample(s interface{}) {
	c.mu.Lock()
	defer c.mu.Unlock()
	if len(c.samples) < 6 {
		c.samples = append(c.samples, s)
	}
}

// Outcome counts a distinct observed outcome class (vacuity guard).
func (c *Collector) Outcome(k string) {
	c.mu.Lock()
	c.outcomes[k]++
	c.mu.Unlock()
}

func (c *Collector) OutcomeN(k string, n int) {
	c.mu.Lock()
	c.outcomes[k] += n
	c.mu.Unlock()
}

func (c *Collector) OutcomeCount(k string) int {
	c.mu.Lock()
	defer c.mu.Unlock()
	return c.outcomes[k]
}

func (c *Collector) Set(k string, v interface{}) {
	c.mu.Lock()
	c.Cov[k] = v
	c.mu.Unlock()
}

func (c *Collector) AddInt(k string, n int) {
	c.mu.Lock()
	old, _ := c.Cov[k].(int)
	c.Cov[k] = old + n
	c.mu.Unlock()
}

// matchSig: '*' in a known-findings pattern matches any run of characters.
func (f Finding) matches(sig string) bool {
	if f.Signature != "" && matchSig(f.Signature, sig) {
		return true
	}
	for _, s := range f.Signatures {
		if s == sig {
			return true
		}
	}
	return false
}

func matchSig(pat, sig string) bool {
	parts := strings.Split(pat, "*")
	if len(parts) == 1 {
		return pat == sig
	}
	if !strings.HasPrefix(sig, parts[0]) {
		return false
	}
	sig = sig[len(parts[0]):]
	for i := 1; i < len(parts)-1; i++ {
		j := strings.Index(sig, parts[i])
		if j < 0 {
			return false
		}
		sig = sig[j+len(parts[i]):]
	}
	return strings.HasSuffix(sig, parts[len(parts)-1])
}

// Finish writes the evidence file, prints KNOWN-FINDING / VIOLATION lines and returns the exit code.
func (c *Collector) Finish() int {
	c.mu.Lock()
	defer c.mu.Unlock()
	findings := LoadFindings()
	sigs := make([]string, 0, len(c.bySig))
	for s := range c.bySig {
		sigs = append(sigs, s)
	}
	sort.Strings(sigs)
	exit := 0
	nviol := 0
	known := []string{}
	type kn struct {
		sigs, occ int
		eg        string
	}
	knownBy := map[int]*kn{}
	for _, s := range sigs {
		v := c.bySig[s]
		isKnown := false
		for fi, f := range findings {
			if f.Property == v.Property && f.Status == "known" && f.matches(s) {
				isKnown = true
				k := knownBy[fi]
				if k == nil {
					k = &kn{eg: v.What}
					knownBy[fi] = k
				}
				k.sigs++
				k.occ += c.sigCount[s]
				known = append(known, s)
				break
			}
		}
		if isKnown {
			continue
		}
		nviol++
		exit = 1
		h := sha1.Sum([]byte(s))
		dir := filepath.Join(OutDir, "replays")
		os.MkdirAll(dir, 0o755)
		p := filepath.Join(dir, fmt.Sprintf("%s-%s.json", v.Property, hex.EncodeToString(h[:6])))
		b, _ := json.MarshalIndent(v, "", " ")
		os.WriteFile(p, b, 0o644)
		fmt.Printf("VIOLATION property=%s replay=%s\n", v.Property, p)
		fmt.Printf("  signature: %s (%d occurrence(s))\n  what: %s\n", s, c.sigCount[s], v.What)
	}
	for fi, f := range findings {
		if k := knownBy[fi]; k != nil {
			eg := k.eg
			if len(eg) > 300 {
				eg = eg[:300] + "..."
			}
			fmt.Printf("KNOWN-FINDING: property=%s %s [pattern %s: %d signature(s), %d occurrence(s) this run; e.g. %s]\n", f.Property, f.What, f.Signature, k.sigs, k.occ, eg)
		}
	}
	cov := c.Cov
	if _, ok := cov["samples"]; !ok {
		cov["samples"] = c.samples
	}
	cov["distinct_outcomes"] = c.outcomes
	cov["known_finding_signatures"] = known
	cov["violation_signatures"] = nviol
	evd := map[string]interface{}{
		"property_id": c.Property, "tier": c.Tier, "seed": Seed(), "level": c.Level,
		"coverage": cov, "assumptions": append([]string{}, c.Assume...), "wall_s": time.Since(c.start).Seconds(), "violations": nviol,
	}
	b, _ := json.MarshalIndent(evd, "", " ")
	os.MkdirAll(filepath.Join(OutDir, "evidence"), 0o755)
	if err := os.WriteFile(filepath.Join(OutDir, "evidence", c.Property+".json"), b, 0o644); err != nil {
		fmt.Println("INFRA: cannot write evidence:", err)
		return 2
	}
	return exit
}

// Deadline helper: checks have an internal deadline; hitting it is exhaustive:false, never a failure.
type Deadline struct{ t time.Time }

func NewDeadline(d time.Duration) Deadline { return Deadline{time.Now().Add(d)} }
func (d Deadline) Hit() bool               { return time.Now().After(d.t) }

func EnvDur(name string, def time.Duration) time.Duration {
	if s := os.Getenv(name); s != "" {
		if v, err := time.ParseDuration(s); err == nil {
			return v
		}
	}
	return def
}

// Violations returns the first violation per signature (used by shard processes).
func (c *Collector) Violations() []Violation {
	c.mu.Lock()
	defer c.mu.Unlock()
	var out []Violation
	for _, v := range c.bySig {
		out = append(out, *v)
	}
	return out
}
