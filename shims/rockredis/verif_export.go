//go:build verif

// Injected by /verif (go build -overlay); never part of the repository.
package rockredis

import (
	"errors"
	"sync/atomic"

	"github.com/youzan/ZanRedisDB/engine"
)

// VerifEngine exposes the key-value engine under a RockDB (physical dumps / state loading).
func VerifEngine(r *RockDB) engine.KVEngine { return r.rockEng }

// ---- key codec seams (C12) --------------------------------------------------------

// VerifVerKey: the versioned collection key used under the wait_compact policy.
func VerifVerKey(key []byte, ver int64) []byte {
	return encodeVerKey(&headerMetaValue{ValueVersion: ver}, key)
}

func VerifDecodeVerKey(b []byte) ([]byte, int64, error) { return decodeVerKey(b) }

// VerifSubKey encodes the stored key of one element of a collection.
// typ: "hash" "set" "zset" (sub = field/member), "list" (seq), "zscore" (sub = member, score),
// "bitmap" (seq = index).
func VerifSubKey(typ string, table, key, sub []byte, seq int64, score float64) []byte {
	switch typ {
	case "hash":
		return hEncodeHashKey(table, key, sub)
	case "set":
		return sEncodeSetKey(table, key, sub)
	case "zset":
		return zEncodeSetKey(table, key, sub)
	case "zscore":
		return zEncodeScoreKey(false, false, table, key, sub, score)
	case "list":
		return lEncodeListKey(table, key, seq)
	case "bitmap":
		b, _ := encodeBitmapKey(table, key, seq)
		return b
	}
	panic("unknown type " + typ)
}

// VerifDecodeSubKey decodes what VerifSubKey produced.
func VerifDecodeSubKey(typ string, ek []byte) (table, key, sub []byte, seq int64, score float64, err error) {
	switch typ {
	case "hash":
		table, key, sub, err = hDecodeHashKey(ek)
	case "set":
		table, key, sub, err = sDecodeSetKey(ek)
	case "zset":
		table, key, sub, err = zDecodeSetKey(ek)
	case "zscore":
		table, key, sub, score, err = zDecodeScoreKey(ek)
	case "list":
		table, key, seq, err = lDecodeListKey(ek)
	case "bitmap":
		table, key, seq, err = decodeBitmapKey(ek)
	}
	return
}

// VerifCollRange: the [start, stop) range a clear / enumeration of one collection uses.
func VerifCollRange(typ string, table, key []byte) (start, stop []byte) {
	switch typ {
	case "hash":
		return hEncodeStartKey(table, key), hEncodeStopKey(table, key)
	case "set":
		return sEncodeStartKey(table, key), sEncodeStopKey(table, key)
	case "zset":
		return zEncodeStartSetKey(table, key), zEncodeStopSetKey(table, key)
	case "zscore":
		return zEncodeStartKey(table, key), zEncodeStopKey(table, key)
	case "list":
		return lEncodeListKey(table, key, listMinSeq), lEncodeListKey(table, key, listMaxSeq)
	case "bitmap":
		s, _ := encodeBitmapStartKey(table, key, 0)
		e, _ := encodeBitmapStopKey(table, key)
		return s, e
	}
	panic("unknown type " + typ)
}

var verifTypeByte = map[string]byte{"kv": KVType, "hash": HashType, "set": SetType, "zset": ZSetType, "zscore": ZScoreType, "list": ListType, "bitmap": BitmapType}

// VerifTableRange: the [start, end) range whole-table operations use for one data type.
func VerifTableRange(typ string, table []byte) (start, end []byte) {
	dt := verifTypeByte[typ]
	return encodeDataTableStart(dt, table), encodeDataTableEnd(dt, table)
}

// VerifKVKey: stored key of a kv value ("table:key" given as the full redis key).
func VerifKVKey(fullKey []byte) ([]byte, []byte, error) {
	t, k, err := convertRedisKeyToDBKVKey(fullKey)
	return t, k, err
}

func VerifDecodeKVKey(ek []byte) ([]byte, error) { return decodeKVKey(ek) }

// VerifMetaKey: the size/meta key of a collection (full redis key "table:key").
func VerifMetaKey(typ string, fullKey []byte) []byte {
	k, err := encodeMetaKey(verifTypeByte[typ], fullKey)
	if err != nil {
		panic(err)
	}
	return k
}

// ---- expiry seams (C10) -------------------------------------------------------------

// VerifLocalExpiryScan runs one synchronous pass of the local-deletion TTL checker (what
// localExpiration.applyExpiration does on every tick) and commits what it found.
func VerifLocalExpiryScan(r *RockDB) error {
	exp, ok := r.expiration.(*localExpiration)
	if !ok {
		return errors.New("not the local_deletion policy")
	}
	buf := newLocalBatchedBuffer(r, localBatchedBufSize)
	defer buf.Destroy()
	exp.TTLChecker.setNextCheckTime(0, true)
	stop := make(chan struct{})
	err := exp.TTLChecker.check(buf, stop)
	buf.commit()
	return err
}

// VerifCompactSweep feeds every stored key/value to the real compaction filter and deletes
// what it condemns: the most thorough compaction possible. Returns the number of removed keys.
// (mem and pebble engines do not wire the filter; rocksdb runs it inside real compactions.)
func VerifCompactSweep(r *RockDB) (int, error) {
	cf := r.compactFilter
	if cf == nil {
		return 0, errors.New("no compaction filter (not the wait_compact policy)")
	}
	atomic.StoreInt64(&cf.cachedTimeSec, 0)
	it, err := r.rockEng.GetIterator(engine.IteratorOpts{})
	if err != nil {
		return 0, err
	}
	var condemned [][]byte
	for it.SeekToFirst(); it.Valid(); it.Next() {
		k := it.Key()
		if del, _ := cf.Filter(0, k, it.Value()); del {
			condemned = append(condemned, k)
		}
	}
	it.Close()
	wb := r.rockEng.NewWriteBatch()
	defer wb.Destroy()
	for _, k := range condemned {
		wb.Delete(k)
	}
	return len(condemned), wb.Commit()
}
