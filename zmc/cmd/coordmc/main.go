// coordmc: C18 — replica migration decisions of the placement driver.
package main

import (
	"flag"
	"fmt"
	"os"
	"sync"
	"time"

	"github.com/youzan/ZanRedisDB/cluster"
	"zmc/coordmc"
	"zmc/ev"
)

func main() {
	tier := flag.String("tier", "quick", "")
	replay := flag.String("replay", "", "")
	flag.Parse()
	if *replay != "" {
		fmt.Println("see", *replay)
		os.Exit(1)
	}
	cluster.SetLogger(0, nil)
	quick := *tier == "quick"
	col := ev.NewCollector("C18", *tier, "model_checking")
	dl := ev.NewDeadline(ev.EnvDur("VERIF_BUDGET", map[bool]time.Duration{true: 150 * time.Second, false: 20 * time.Minute}[quick]))
	type cfg struct {
		replica, n, depth int
		seed              string
	}
	var cfgs []cfg
	for _, seed := range []string{"fresh", "one-replica-down", "two-replicas-down", "unsynced-replica"} {
		if quick {
			cfgs = append(cfgs, cfg{1, 2, 8, seed}, cfg{2, 3, 8, seed}, cfg{3, 4, 9, seed}, cfg{3, 5, 8, seed}, cfg{4, 5, 7, seed}, cfg{5, 6, 6, seed})
		} else {
			cfgs = append(cfgs, cfg{1, 3, 10, seed}, cfg{2, 4, 10, seed}, cfg{3, 4, 12, seed}, cfg{3, 5, 10, seed}, cfg{4, 6, 9, seed}, cfg{5, 7, 8, seed})
		}
	}
	states, trans, writes, probes := 0, 0, 0, 0
	exhaustive := true
	var per []interface{}
	// every search has its own loopback data nodes; eight run at a time
	var mu sync.Mutex
	var wg sync.WaitGroup
	sem := make(chan struct{}, 8)
	for _, c := range cfgs {
		wg.Add(1)
		sem <- struct{}{}
		go func(c cfg) {
			defer wg.Done()
			defer func() { <-sem }()
			own := coordmc.StartNodes(7)
			defer own.Stop()
			t0 := time.Now()
			st, ok := coordmc.Run(col, own, c.replica, c.n, c.depth, c.seed, dl)
			mu.Lock()
			defer mu.Unlock()
			states += st.States
			trans += st.Transitions
			writes += st.Writes
			probes += st.Probes
			if !ok {
				exhaustive = false
			}
			per = append(per, map[string]interface{}{"seed": c.seed, "replication": c.replica, "data_nodes": c.n, "depth": c.depth, "states": st.States, "transitions": st.Transitions, "register_writes": st.Writes, "writes_by_kind": st.WritesByKind, "http_probes_answered": st.Probes, "complete": ok, "wall_s": time.Since(t0).Seconds()})
			fmt.Printf("[C18] seed=%s replication=%d nodes=%d depth=%d: states=%d transitions=%d writes=%d %v probes=%d complete=%v %.1fs\n", c.seed, c.replica, c.n, c.depth, st.States, st.Transitions, st.Writes, st.WritesByKind, st.Probes, ok, time.Since(t0).Seconds())
		}(c)
	}
	wg.Wait()
	col.Set("states", states)
	col.Set("transitions", trans)
	col.Set("traces_validated_against_impl", trans)
	col.Set("register_writes_checked", writes)
	col.Set("http_probes_answered", probes)
	col.Set("exhaustive", exhaustive)
	col.Set("searches", per)
	col.Set("rule", "state = (partition replica metadata in the register, live node set, per-node sync answer, raft membership the data nodes report, 'noted as failing' flag, raft ids ever handed out); transitions = one round of the real namespace checker (doCheckNamespaces: finish removals, migrate, balance removal), one attempt of the real balancer add (addNodeToNamespaceAndWaitReady), and environment events node down/up, sync answer flip, replica joins/leaves the raft group; each coordinator transition runs on a fresh PDCoordinator against an in-memory compare-and-swap register and loopback data nodes answering /cluster/members and /cluster/israftsynced; invariants evaluated on every register write")
	col.Sample(map[string]interface{}{"path": []string{"down 2", "check-round", "check-round (marks node 2 removing)", "leave 2", "check-round (finishes removal)", "check-round (adds spare node with a fresh raft id)"}})
	col.Sample(map[string]interface{}{"invariants": []string{"<=1 removing", "distinct nodes", "remaining replicas strict majority of the replication factor", "one addition per step and only with all current replicas live and in sync", "raft ids fresh, never reused, MaxRaftID monotone", "no removal marked with more than half of the replicas unreachable", "writes carry the epoch they read"}})
	col.Assume = []string{"elapsed-time gates set to zero (time passing is free); RemoveTime==0 (PD leader change during removal) not explored", "all data nodes report the same raft membership"}
	if writes == 0 && col.NumViolationSigs() == 0 {
		fmt.Println("INFRA: vacuous (the coordinator never wrote)")
		col.Finish()
		os.Exit(2)
	}
	os.Exit(col.Finish())
}
