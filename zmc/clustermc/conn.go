package clustermc

import (
	"fmt"
	"net"
	"strings"

	"github.com/absolute8511/redcon"
)

// capConn records what a read handler writes (flat).
type capConn struct{ toks []string }

func (c *capConn) RemoteAddr() string             { return "verif" }
func (c *capConn) Close() error                   { return nil }
func (c *capConn) WriteError(msg string)          { c.toks = append(c.toks, "ERR "+msg) }
func (c *capConn) WriteString(str string)         { c.toks = append(c.toks, "+"+str) }
func (c *capConn) WriteBulk(bulk []byte)          { c.toks = append(c.toks, fmt.Sprintf("%q", string(bulk))) }
func (c *capConn) WriteBulkString(bulk string)    { c.toks = append(c.toks, fmt.Sprintf("%q", bulk)) }
func (c *capConn) WriteInt(num int)               { c.toks = append(c.toks, fmt.Sprintf("%d", num)) }
func (c *capConn) WriteInt64(num int64)           { c.toks = append(c.toks, fmt.Sprintf("%d", num)) }
func (c *capConn) WriteArray(count int)           { c.toks = append(c.toks, fmt.Sprintf("*%d", count)) }
func (c *capConn) WriteNull()                     { c.toks = append(c.toks, "nil") }
func (c *capConn) WriteRaw(data []byte)           { c.toks = append(c.toks, fmt.Sprintf("raw%q", string(data))) }
func (c *capConn) Context() interface{}           { return nil }
func (c *capConn) SetContext(v interface{})       {}
func (c *capConn) SetReadBuffer(bytes int)        {}
func (c *capConn) Detach() redcon.DetachedConn    { return nil }
func (c *capConn) ReadPipeline() []redcon.Command { return nil }
func (c *capConn) PeekPipeline() []redcon.Command { return nil }
func (c *capConn) NetConn() net.Conn              { return nil }
func (c *capConn) Flush() error                   { return nil }
func (c *capConn) String() string                 { return strings.Join(c.toks, " ") }
