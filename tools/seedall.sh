#!/bin/bash
# seedall.sh [name-regex] : every kept seeded change against the check recorded in its meta.json (quick), through the overlay.
RE=${1:-.}
OUT=/verif/seeded/RESULTS.part-$$.tsv
: > $OUT
for d in /verif/seeded/C*/; do
  n=$(basename $d); echo "$n" | grep -Eq "$RE" || continue
  ID=$(python3 -c "import json;print(json.load(open('$d/meta.json'))['check']['property'])")
  r=$(/verif/tools/mutate.sh $d/patch.diff $ID quick 2>&1)
  rc=$(echo "$r" | grep -o "^exit=[0-9]*" | cut -d= -f2)
  sig=$(echo "$r" | grep -m1 "signature:" | sed 's/^ *signature: //' | cut -c1-100)
  printf "%s\t%s\t%s\t%s\n" "$n" "$ID" "$rc" "$sig" >> $OUT
done
touch $OUT.done
