package storemc

import (
	"crypto/sha256"
	"fmt"
	"io/ioutil"
	"os"
	"os/exec"
	"path/filepath"
	"sort"
	"strings"
	"time"

	"github.com/youzan/ZanRedisDB/rockredis"
	"zmc/ev"
)

// C14: checkpoints. For every history ≤ n from a pool with every data type, a counter, an HLL
// add and a TTL command, and every 0 ≤ i < j ≤ n: apply [0,i), Backup(i), apply [i,j),
// Restore(i) → state recorded at i; re-apply [i,j) → state before the restore.

// HLLPool: element-changing and idempotent PFADDs, a read that refreshes the cached count, a decoy.
var HLLPool = [][]string{{"pfadd", "t:p", "e1"}, {"pfadd", "t:p", "e2"}, {"pfadd", "t:p", "e3"}, {"pfcount", "t:p"}, {"set", "t:k", "v"}}

var BackupPool = [][]string{
	{"set", "t:k", "v"}, {"incr", "t:c"}, {"hset", "t:h", "a", "1"}, {"rpush", "t:l", "x"}, {"sadd", "t:s", "m"},
	{"zadd", "t:z", "1", "m"}, {"pfadd", "t:p", "e1"}, {"setex", "t:e", "1000", "v"}, {"del", "t:k"}, {"hclear", "t:h"},
	{"append", "t:k", "y"}, {"pfadd", "t:p", "e2"},
}

func (s *Store) view() string {
	var sb strings.Builder
	for _, r := range [][]string{{"get", "t:k"}, {"get", "t:c"}, {"hgetall", "t:h"}, {"lrange", "t:l", "0", "-1"}, {"smembers", "t:s"},
		{"zrange", "t:z", "0", "-1", "withscores"}, {"pfcount", "t:p"}, {"get", "t:e"}, {"ttl", "t:e"}, {"hlen", "t:h"}, {"llen", "t:l"}} {
		fmt.Fprintf(&sb, "%v=%v; ", r, s.Read(r...))
	}
	return sb.String()
}

func (s *Store) backup(term, index uint64) error {
	for try := 0; try < 200; try++ {
		bi := s.DB.Backup(term, index)
		if bi == nil {
			// the backup goroutine is not parked yet: production's snapshot trigger retries too
			time.Sleep(time.Millisecond)
			continue
		}
		_, err := bi.GetResult()
		return err
	}
	return fmt.Errorf("backup loop never accepted the request")
}

func dirHashes(dir string) map[string]string {
	out := map[string]string{}
	filepath.Walk(dir, func(p string, info os.FileInfo, err error) error {
		if err != nil || info.IsDir() {
			return nil
		}
		b, err := ioutil.ReadFile(p)
		if err == nil {
			rel, _ := filepath.Rel(dir, p)
			out[rel] = fmt.Sprintf("%x", sha256.Sum256(b))
		}
		return nil
	})
	return out
}

type BackupStats struct {
	Histories, Cases, Restores int
}

func seqs(pool [][]string, maxLen int) [][][]string {
	var out [][][]string
	var rec func(cur [][]string)
	rec = func(cur [][]string) {
		if len(cur) > 0 {
			out = append(out, append([][]string(nil), cur...))
		}
		if len(cur) == maxLen {
			return
		}
		for _, c := range pool {
			rec(append(cur, c))
		}
	}
	rec(nil)
	return out
}

func RunBackups(opt Options, col *ev.Collector, label string, pool [][]string, maxLen int, otherNode bool, dl ev.Deadline) (st BackupStats, complete bool) {
	base := int64(1600000000) * 1e9
	report := func(sig, what string, replay map[string]interface{}) {
		replay["label"] = label
		col.Add(ev.Violation{Property: "C14", Signature: "C14|" + sig, What: label + ": " + what, Replay: replay})
	}
	hs := seqs(pool, maxLen)
	s := Open(opt)
	defer func() { s.Destroy() }()
	var other *Store
	if otherNode {
		other = Open(opt)
		defer other.Destroy()
	}
	term := uint64(1)
	for hi, h := range hs {
		if dl.Hit() {
			return st, false
		}
		st.Histories++
		n := len(h)
		for i := 0; i < n; i++ {
			for j := i + 1; j <= n; j++ {
				// a fresh index space per case so that checkpoint names never collide
				idx := uint64(hi*100 + i*10 + j + 1)
				s.Reset()
				apply := func(st *Store, from, to int) {
					for k := from; k < to; k++ {
						st.Write(base+int64(k)*1e9, h[k]...)
					}
				}
				apply(s, 0, i)
				s.DB.SetLatestSnapIndex(idx)
				if err := s.backup(term, idx); err != nil {
					report("backup-failed", fmt.Sprintf("history %v backup at %d: %v", h, i, err), map[string]interface{}{"history": h, "i": i, "j": j})
					continue
				}
				viewAtI, dumpAtI := s.view(), s.Dump().Key(skipMetaKey)
				ckDir := filepath.Join(s.DB.GetBackupDir(), rockredis.GetCheckpointDir(term, idx))
				ckFiles := dirHashes(ckDir)
				apply(s, i, j)
				viewAtJ, dumpAtJ := s.view(), s.Dump().Key(skipMetaKey)
				st.Cases++
				for round := 0; round < 2; round++ { // restore twice: the checkpoint must survive a restore
					if err := s.DB.Restore(term, idx); err != nil {
						report("restore-failed", fmt.Sprintf("history %v, backup at %d, writes [%d,%d), restore #%d: %v", h, i, i, j, round+1, err), map[string]interface{}{"history": h, "i": i, "j": j})
						break
					}
					st.Restores++
					if v, d := s.view(), s.Dump().Key(skipMetaKey); v != viewAtI || d != dumpAtI {
						report("restore-differs-from-state-at-backup", fmt.Sprintf("history %v: backup after %d command(s), then %v, restore #%d shows {%s}, the state at the backup was {%s} (physical equal: %v)", h, i, h[i:j], round+1, v, viewAtI, d == dumpAtI),
							map[string]interface{}{"history": h, "i": i, "j": j, "round": round})
						break
					}
					// hard-link threat: every file that was in the checkpoint is byte-identical
					now := dirHashes(ckDir)
					for f, hsh := range ckFiles {
						if now[f] != hsh {
							report("checkpoint-file-changed", fmt.Sprintf("history %v: file %s of checkpoint %d changed after later writes / restore #%d", h, f, idx, round+1), map[string]interface{}{"history": h, "i": i, "j": j})
							break
						}
					}
					if round == 0 {
						// log replay equivalence: re-applying [i,j) gives the pre-restore state
						apply(s, i, j)
						if v, d := s.view(), s.Dump().Key(skipMetaKey); v != viewAtJ || d != dumpAtJ {
							report("replay-after-restore-differs", fmt.Sprintf("history %v: restore at %d then re-applying %v shows {%s}, before the restore it was {%s}", h, i, h[i:j], v, viewAtJ), map[string]interface{}{"history": h, "i": i, "j": j})
							break
						}
					}
				}
				if other != nil {
					// a lagging replica fetches the checkpoint and restores from it
					dst := filepath.Join(other.DB.GetBackupDir(), rockredis.GetCheckpointDir(term, idx))
					os.RemoveAll(dst)
					os.MkdirAll(filepath.Dir(dst), 0o755)
					if out, err := exec.Command("cp", "-r", ckDir, dst).CombinedOutput(); err != nil {
						panic(fmt.Sprintf("cp: %v %s", err, out))
					}
					other.Reset()
					other.Write(base, "set", "t:junk", "x") // the lagging replica has unrelated older content
					if err := other.DB.Restore(term, idx); err != nil {
						report("restore-on-other-node-failed", fmt.Sprintf("history %v backup at %d: %v", h, i, err), map[string]interface{}{"history": h, "i": i})
					} else {
						st.Restores++
						if v := other.view(); v != viewAtI || other.Read("get", "t:junk").Kind != "null" {
							report("restore-on-other-node-differs", fmt.Sprintf("history %v: another node restoring the checkpoint taken after %d command(s) shows {%s} junk=%v, expected {%s}", h, i, v, other.Read("get", "t:junk"), viewAtI), map[string]interface{}{"history": h, "i": i})
						}
					}
				}
			}
		}
	}
	return st, true
}

// RunPurge: with KeepBackup=k and the latest raft snapshot index recorded, after every
// backup the checkpoint named by that index and all newer ones still exist and restore.
func RunPurge(opt Options, col *ev.Collector, label string) (cases int) {
	base := int64(1600000000) * 1e9
	s := Open(opt)
	defer s.Destroy()
	for snapAt := 1; snapAt <= 6; snapAt++ {
		s.Reset()
		os.RemoveAll(s.DB.GetBackupDir())
		os.MkdirAll(s.DB.GetBackupDir(), 0o755)
		views := map[int]string{}
		for b := 1; b <= 8; b++ {
			s.Write(base+int64(b)*1e9, "rpush", "t:l", fmt.Sprint(b))
			if b == snapAt {
				s.DB.SetLatestSnapIndex(uint64(b))
			}
			if err := s.backup(1, uint64(b)); err != nil {
				panic(err)
			}
			views[b] = s.view()
			cases++
			var have []string
			ents, _ := ioutil.ReadDir(s.DB.GetBackupDir())
			for _, e := range ents {
				if strings.Contains(e.Name(), "-") {
					have = append(have, e.Name())
				}
			}
			sort.Strings(have)
			if b >= snapAt {
				for k := snapAt; k <= b; k++ {
					name := rockredis.GetCheckpointDir(1, uint64(k))
					found := false
					for _, hname := range have {
						if hname == name {
							found = true
						}
					}
					if !found {
						col.Add(ev.Violation{Property: "C14", Signature: "C14|purge|needed-checkpoint-removed", What: fmt.Sprintf("%s: keep=%d, raft snapshot recorded at index %d: after backup %d the checkpoint %d is gone (present: %v)", label, opt.KeepBackup, snapAt, b, k, have)})
					}
				}
			}
		}
	}
	// a restore purges too: restoring any existing checkpoint (older than, equal to or newer than the recorded
	// snapshot) must leave the checkpoint named by the recorded snapshot index and all newer ones in place
	for snapAt := 1; snapAt <= 4; snapAt++ {
		for restoreAt := snapAt; restoreAt <= 5; restoreAt++ {
			s.Reset()
			os.RemoveAll(s.DB.GetBackupDir())
			os.MkdirAll(s.DB.GetBackupDir(), 0o755)
			s.DB.SetLatestSnapIndex(uint64(snapAt))
			for b := 1; b <= 5; b++ {
				s.Write(base+int64(b)*1e9, "rpush", "t:l", fmt.Sprint(b))
				if b >= snapAt { // older ones would be purged by the backup itself
					if err := s.backup(1, uint64(b)); err != nil {
						panic(err)
					}
				}
			}
			cases++
			if err := s.DB.Restore(1, uint64(restoreAt)); err != nil {
				col.Add(ev.Violation{Property: "C14", Signature: "C14|purge|restore-failed", What: fmt.Sprintf("%s: keep=%d, snapshot recorded at %d, checkpoints %d..5: restore of %d fails: %v", label, opt.KeepBackup, snapAt, snapAt, restoreAt, err)})
				continue
			}
			for k := snapAt; k <= 5; k++ {
				if ok, _ := s.DB.IsLocalBackupOK(1, uint64(k)); !ok {
					col.Add(ev.Violation{Property: "C14", Signature: "C14|purge|restore-removes-needed-checkpoint", What: fmt.Sprintf("%s: keep=%d, raft snapshot recorded at index %d, checkpoints %d..5: after restoring checkpoint %d the checkpoint %d is gone", label, opt.KeepBackup, snapAt, snapAt, restoreAt, k)})
					break
				}
			}
		}
	}
	return cases
}

// RunInterleaved: two backups interleaved with writes, restore the older, write, take a third
// backup, then restore the second, the third and the first again (same-named engine files with
// different content between checkpoints are the threat).
func RunInterleaved(opt Options, col *ev.Collector, label string, pool [][]string, dl ev.Deadline) (cases int, complete bool) {
	base := int64(1600000000) * 1e9
	s := Open(opt)
	defer s.Destroy()
	ref := Open(opt)
	defer ref.Destroy()
	hs := seqs(pool, 3)
	for hi, h := range hs {
		if len(h) != 3 {
			continue
		}
		if dl.Hit() {
			return cases, false
		}
		s.Reset()
		idx := uint64(hi*10 + 1)
		do := func(st *Store, k int) {
			if h[k][0] == "pfcount" {
				st.Read(h[k]...) // a read in the history: it refreshes the cached count
				return
			}
			st.Write(base+int64(k)*1e9, h[k]...)
		}
		w := func(k int) { do(s, k) }
		views := map[string]string{}
		// what the store must show at each backup comes from a second store that replays the same
		// commands and is never backed up: the store under test is not read between its commands
		// (a read such as PFCOUNT refreshes cached state and would hide what a backup fails to flush)
		refView := func(cmds ...int) string {
			ref.Reset()
			for _, k := range cmds {
				do(ref, k)
			}
			return ref.view()
		}
		expected := map[string]string{"A": refView(0), "B": refView(0, 1), "C": refView(0, 2)}
		mark := func(name string, index uint64) bool {
			s.DB.SetLatestSnapIndex(idx) // keep all of this case's checkpoints
			if err := s.backup(1, index); err != nil {
				col.Add(ev.Violation{Property: "C14", Signature: "C14|interleaved|backup-failed", What: fmt.Sprintf("%s: history %v backup %s: %v", label, h, name, err)})
				return false
			}
			views[name] = expected[name] + s.Dump().Key(skipMetaKey)
			return true
		}
		w(0)
		if !mark("A", idx) {
			continue
		}
		w(1)
		if !mark("B", idx+1) {
			continue
		}
		if err := s.DB.Restore(1, idx); err != nil {
			col.Add(ev.Violation{Property: "C14", Signature: "C14|interleaved|restore-failed", What: fmt.Sprintf("%s: history %v restore A: %v", label, h, err)})
			continue
		}
		w(2)
		if !mark("C", idx+2) {
			continue
		}
		for _, step := range []struct {
			name  string
			index uint64
		}{{"B", idx + 1}, {"C", idx + 2}, {"A", idx}, {"B", idx + 1}} {
			cases++
			if err := s.DB.Restore(1, step.index); err != nil {
				col.Add(ev.Violation{Property: "C14", Signature: "C14|interleaved|restore-failed", What: fmt.Sprintf("%s: history %v restore %s: %v", label, h, step.name, err)})
				break
			}
			if got := s.view() + s.Dump().Key(skipMetaKey); got != views[step.name] {
				col.Add(ev.Violation{Property: "C14", Signature: "C14|interleaved|restore-differs-from-state-at-backup",
					What:   fmt.Sprintf("%s: history %v: backups A (after cmd 1), B (after cmd 2), restore A, cmd 3, backup C; restoring %s shows {%s}, recorded at that backup {%s}", label, h, step.name, s.view(), strings.SplitN(views[step.name], "; \x00", 2)[0]),
					Replay: map[string]interface{}{"label": label, "history": h, "restore": step.name}})
				break
			}
		}
	}
	return cases, true
}
