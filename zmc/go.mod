module zmc

go 1.21

require (
	github.com/anishathalye/porcupine v1.3.0
	github.com/youzan/ZanRedisDB v0.0.0
)

require (
	github.com/AndreasBriese/bbloom v0.0.0-20190306092124-e2d15f34fcf9 // indirect
	github.com/absolute8511/redcon v0.9.3 // indirect
	github.com/certifi/gocertifi v0.0.0-20200211180108-c7c1fbc02894 // indirect
	github.com/cockroachdb/errors v1.2.4 // indirect
	github.com/cockroachdb/logtags v0.0.0-20190617123548-eb05cc24525f // indirect
	github.com/cockroachdb/pebble v0.0.0-20200616214509-8de6baeca713 // indirect
	github.com/dgraph-io/badger v0.0.0-20190301165350-b669ca040b3d // indirect
	github.com/dgryski/go-farm v0.0.0-20190104051053-3adb47b1fb0f // indirect
	github.com/dustin/go-humanize v1.0.0 // indirect
	github.com/getsentry/raven-go v0.2.0 // indirect
	github.com/gogo/protobuf v1.3.1 // indirect
	github.com/golang/protobuf v1.3.2 // indirect
	github.com/golang/snappy v0.0.2-0.20190904063534-ff6b7dc882cf // indirect
	github.com/hashicorp/go-immutable-radix v1.3.0 // indirect
	github.com/hashicorp/golang-lru v0.5.4 // indirect
	github.com/julienschmidt/httprouter v1.2.0 // indirect
	github.com/pkg/errors v0.9.1 // indirect
	github.com/shirou/gopsutil v0.0.0-20180427012116-c95755e4bcd7 // indirect
	github.com/youzan/gorocksdb v0.0.0-20201201080653-1a9b5c65c962 // indirect
	go.uber.org/atomic v1.6.0 // indirect
	go.uber.org/multierr v1.5.0 // indirect
	go.uber.org/zap v1.16.0 // indirect
	golang.org/x/exp v0.0.0-20200513190911-00229845015e // indirect
	golang.org/x/net v0.0.0-20191209160850-c0dbc17a3553 // indirect
	golang.org/x/sys v0.0.0-20200519105757-fe76b779f299 // indirect
	gopkg.in/natefinch/lumberjack.v2 v2.0.0 // indirect
)

replace github.com/youzan/ZanRedisDB => /repo

replace github.com/hashicorp/go-immutable-radix v1.3.0 => github.com/absolute8511/go-immutable-radix v1.3.1-0.20210225131658-3dcbbb786587
