package storemc

// Universes: tiny adversarial alphabets per data type (DESIGN.md C08/C09).

func HashUniverse() *Universe {
	u := &Universe{Name: "hash", Hash: []string{"t:h", "t:g"}, Fields: []string{"a", "b", ""}}
	for _, k := range u.Hash {
		for _, f := range []string{"a", "b"} {
			for _, v := range []string{"1", "x"} {
				u.Cmds = append(u.Cmds, []string{"hset", k, f, v})
			}
			u.Cmds = append(u.Cmds, []string{"hsetnx", k, f, "1"}, []string{"hdel", k, f})
		}
		u.Cmds = append(u.Cmds,
			[]string{"hset", k, "", ""},
			[]string{"hmset", k, "a", "1", "b", "1"}, []string{"hmset", k, "a", "1", "a", "x"}, []string{"hmset", k, "b", "x"},
			[]string{"hdel", k, "a", "b"}, []string{"hdel", k, "a", "a"}, []string{"hdel", k, "", "a"},
			[]string{"hincrby", k, "a", "1"}, []string{"hincrby", k, "b", "-1"},
			[]string{"hclear", k})
	}
	u.Cmds = append(u.Cmds, []string{"hmclear", "t:h", "t:g"})
	return u
}

func SetUniverse() *Universe {
	u := &Universe{Name: "set", Set: []string{"t:s", "t:r"}, Fields: []string{"a", "b", ""}}
	for _, k := range u.Set {
		u.Cmds = append(u.Cmds,
			[]string{"sadd", k, "a"}, []string{"sadd", k, "b"}, []string{"sadd", k, ""}, []string{"sadd", k, "a", "b"}, []string{"sadd", k, "a", "a", "b"},
			[]string{"srem", k, "a"}, []string{"srem", k, "b"}, []string{"srem", k, "a", "b"}, []string{"srem", k, "a", "a"}, []string{"srem", k, ""},
			[]string{"spop", k}, []string{"spop", k, "2"}, []string{"spop", k, "0"},
			[]string{"sclear", k})
	}
	u.Cmds = append(u.Cmds, []string{"smclear", "t:s", "t:r"})
	return u
}

func ListUniverse() *Universe {
	u := &Universe{Name: "list", List: []string{"t:l"}}
	k := "t:l"
	u.Cmds = append(u.Cmds,
		[]string{"lpush", k, "a"}, []string{"lpush", k, "a", "b"}, []string{"rpush", k, "b"}, []string{"rpush", k, "a", "a"}, []string{"rpush", k, ""},
		[]string{"lpop", k}, []string{"rpop", k},
		[]string{"lset", k, "0", "x"}, []string{"lset", k, "-1", "y"}, []string{"lset", k, "1", "z"}, []string{"lset", k, "5", "x"}, []string{"lset", k, "-5", "x"},
		[]string{"ltrim", k, "0", "0"}, []string{"ltrim", k, "1", "-1"}, []string{"ltrim", k, "0", "-2"}, []string{"ltrim", k, "-1", "-1"}, []string{"ltrim", k, "2", "1"}, []string{"ltrim", k, "-100", "100"},
		// a stop that equals the length, is one below it or one above it for the short lists of this universe
		[]string{"ltrim", k, "0", "1"}, []string{"ltrim", k, "0", "2"}, []string{"ltrim", k, "1", "2"}, []string{"ltrim", k, "0", "3"},
		[]string{"lclear", k})
	return u
}

func ZSetUniverse() *Universe {
	u := &Universe{Name: "zset", ZSet: []string{"t:z"}, Fields: []string{"a", "b", ""}}
	k := "t:z"
	u.Cmds = append(u.Cmds,
		[]string{"zadd", k, "1", "a"}, []string{"zadd", k, "2", "a"}, []string{"zadd", k, "1", "b"}, []string{"zadd", k, "-1", "b"}, []string{"zadd", k, "0", ""}, []string{"zadd", k, "1", ""},
		[]string{"zadd", k, "1", "a", "2", "a"}, []string{"zadd", k, "1", "a", "1", "b"}, []string{"zadd", k, "1.5", "a"},
		// a score so large that adding 1 does not change it (float64): the increment is absorbed
		[]string{"zadd", k, "100000000000000000", "a"},
		[]string{"zincrby", k, "1", "a"}, []string{"zincrby", k, "-1", "b"}, []string{"zincrby", k, "0", "a"},
		[]string{"zrem", k, "a"}, []string{"zrem", k, "a", "b"}, []string{"zrem", k, "a", "a"}, []string{"zrem", k, ""},
		[]string{"zremrangebyrank", k, "0", "0"}, []string{"zremrangebyrank", k, "-1", "-1"}, []string{"zremrangebyrank", k, "1", "0"},
		[]string{"zremrangebyscore", k, "1", "1"}, []string{"zremrangebyscore", k, "(1", "2"}, []string{"zremrangebyscore", k, "-inf", "+inf"},
		[]string{"zremrangebylex", k, "[a", "[a"}, []string{"zremrangebylex", k, "(a", "+"}, []string{"zremrangebylex", k, "-", "+"}, []string{"zremrangebylex", k, "-", "["}, []string{"zremrangebylex", k, "-", "("}, []string{"zremrangebylex", k, "(", "+"}, []string{"zremrangebylex", k, "[", "(b"},
		[]string{"zclear", k})
	return u
}

func KVUniverse() *Universe {
	u := &Universe{Name: "kv", KV: []string{"t:k", "t:j"}}
	for _, k := range u.KV {
		u.Cmds = append(u.Cmds,
			[]string{"set", k, "1"}, []string{"set", k, "x"}, []string{"set", k, ""}, []string{"setnx", k, "1"}, []string{"getset", k, "x"},
			[]string{"incr", k}, []string{"incrby", k, "-2"}, []string{"append", k, "x"}, []string{"append", k, ""},
			[]string{"setrange", k, "1", "y"}, []string{"setrange", k, "0", ""},
			[]string{"del", k})
	}
	u.Cmds = append(u.Cmds, []string{"del", "t:k", "t:j"}, []string{"del", "t:k", "t:k"}, []string{"mset", "t:k", "1", "t:j", "1"}, []string{"mset", "t:k", "1", "t:k", "x"})
	return u
}

// CrossUniverse: one name used under every type (per-type keyspaces must not interfere).
func CrossUniverse() *Universe {
	n := "t:n"
	u := &Universe{Name: "cross-type", KV: []string{n}, Hash: []string{n}, List: []string{n}, Set: []string{n}, ZSet: []string{n}, Fields: []string{"a"}}
	u.Cmds = [][]string{
		{"set", n, "1"}, {"del", n}, {"incr", n},
		{"hset", n, "a", "1"}, {"hdel", n, "a"}, {"hclear", n},
		{"lpush", n, "a"}, {"lpop", n}, {"lclear", n},
		{"sadd", n, "a"}, {"srem", n, "a"}, {"sclear", n},
		{"zadd", n, "1", "a"}, {"zrem", n, "a"}, {"zclear", n},
	}
	return u
}

func AllUniverses() []*Universe {
	return []*Universe{HashUniverse(), SetUniverse(), ListUniverse(), ZSetUniverse(), KVUniverse(), CrossUniverse()}
}
