//go:build verif

// Injected by /verif (go build -overlay); never part of the repository.
package pdnode_coord

import (
	"github.com/youzan/ZanRedisDB/cluster"
)

// VerifRebalanced is getRebalancedNamespacePartitions (the layout function behind
// allocNamespaceRaftNodes and decideUnwantedRaftNode). refused = ErrNodeUnavailable.
func VerifRebalanced(ns string, partitionNum, replica int, old [][]string, nodes map[string]cluster.NodeInfo, ver string) (layout [][]string, refused bool, other string) {
	r, err := getRebalancedNamespacePartitions(ns, partitionNum, replica, old, nodes, ver)
	if err != nil {
		if err == ErrNodeUnavailable {
			return nil, true, ""
		}
		return nil, false, err.String()
	}
	return r, false, ""
}
