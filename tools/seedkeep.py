#!/usr/bin/env python3
"""seedkeep.py <worktree> <ID> <result-line-from-seedverify> <initially_missed:0|1> [note]
Copy a confirmed seeded change to /verif/seeded/<name>/ (patch.diff, demo/, meta.json with my own confirmation)."""
import json, os, shutil, sys, re
wt, pid, line, missed = sys.argv[1:5]
note = sys.argv[5] if len(sys.argv) > 5 else ""
name = os.path.basename(wt.rstrip("/"))
dst = os.path.join("/verif/seeded", name)
shutil.rmtree(dst, ignore_errors=True)
os.makedirs(dst)
shutil.copy(os.path.join(wt, "SEED/patch.diff"), dst)
shutil.copytree(os.path.join(wt, "SEED/demo"), os.path.join(dst, "demo"))
meta = json.load(open(os.path.join(wt, "SEED/meta.json")))
m = re.search(r"build=(\d+) baseline=(\d+) demo_with=(\d+) demo_without=(\d+) check: exit=(\d+)", line)
meta["confirmed"] = {"builds": m.group(1) == "0", "baseline_passes": m.group(2) == "0", "demo_exit_with_change": int(m.group(3)),
                     "demo_exit_without_change": int(m.group(4)), "how": "tools/seedverify.sh in the scratch worktree (zrgo build ./..., baseline packages, SEED/demo/run.sh with and without the patch)"}
meta["check"] = {"property": pid, "quick_exit_with_change": int(m.group(5)), "caught": m.group(5) == "1", "initially_missed": missed == "1", "note": note}
json.dump(meta, open(os.path.join(dst, "meta.json"), "w"), indent=1)
print("kept", dst)
