// Package storevc: checks that need the virtual wall clock (build with the vclock overlay).
// C10: expiry. BFS over (physical store state, log clock) of tiny TTL universes; reads are
// evaluated at several virtual wall clocks; compaction sweeps and expiry scans are events.
package storevc

import (
	"fmt"
	"math"
	"sort"
	"strconv"
	"strings"
	"time"

	"github.com/youzan/ZanRedisDB/common"
	"github.com/youzan/ZanRedisDB/rockredis"
	"zmc/ev"
	"zmc/storemc"
)

const T0 = int64(1600000000) // unix seconds of log clock 0

// SetClock freezes time.Now() at T0+sec (+nsec).
func SetClock(sec int64, nsec int32) { time.VerifSetWallClock(T0+sec, nsec) }

// ---- model --------------------------------------------------------------------------

type ent struct {
	kv   string
	hash map[string]string
	list []string
	set  map[string]bool
	zset map[string]float64
	exp  int64 // absolute log seconds (relative to T0), 0 = none
}

type TModel struct {
	m map[string]*ent // key: typ + " " + name
}

func (t TModel) clone() TModel {
	n := TModel{m: map[string]*ent{}}
	for k, e := range t.m {
		c := *e
		if e.hash != nil {
			c.hash = map[string]string{}
			for a, b := range e.hash {
				c.hash[a] = b
			}
		}
		c.list = append([]string(nil), e.list...)
		if e.set != nil {
			c.set = map[string]bool{}
			for a := range e.set {
				c.set[a] = true
			}
		}
		if e.zset != nil {
			c.zset = map[string]float64{}
			for a, b := range e.zset {
				c.zset[a] = b
			}
		}
		n.m[k] = &c
	}
	return n
}

// live returns the entity if it exists and is not expired at clock now.
func (t TModel) live(typ, name string, now int64) *ent {
	e := t.m[typ+" "+name]
	if e == nil {
		return nil
	}
	if e.exp != 0 && now >= e.exp {
		return nil
	}
	return e
}

// forWrite: a write at log time now sees an expired entity as absent (starts from empty)
func (t TModel) forWrite(typ, name string, now int64, create bool) *ent {
	e := t.live(typ, name, now)
	if e == nil {
		delete(t.m, typ+" "+name)
		if !create {
			return nil
		}
		e = &ent{}
		t.m[typ+" "+name] = e
	}
	return e
}

func typeOf(cmd string) string {
	switch {
	case cmd == "set" || cmd == "setex" || cmd == "expire" || cmd == "persist" || cmd == "append" || cmd == "incr" || cmd == "getset" || cmd == "setnx" || cmd == "del" || cmd == "setrange" || cmd == "mset":
		return "kv"
	case strings.HasPrefix(cmd, "h"):
		return "hash"
	case strings.HasPrefix(cmd, "l") || cmd == "rpush":
		return "list"
	case strings.HasPrefix(cmd, "s"):
		return "set"
	case strings.HasPrefix(cmd, "z"):
		return "zset"
	}
	return "?"
}

func (e *ent) empty(typ string) bool {
	switch typ {
	case "hash":
		return len(e.hash) == 0
	case "list":
		return len(e.list) == 0
	case "set":
		return len(e.set) == 0
	case "zset":
		return len(e.zset) == 0
	}
	return false
}

// Apply a write at log clock now (seconds). Returns the expected reply kind for a light
// reply check: "int:<n>", "ok", "bulk:<s>", "null", "any".
func (t TModel) Apply(cmd []string, now int64) string {
	name := strings.ToLower(cmd[0])
	typ := typeOf(name)
	k := cmd[1]
	dropIfEmpty := func(e *ent) {
		if e != nil && e.empty(typ) {
			delete(t.m, typ+" "+k)
		}
	}
	switch name {
	case "set":
		delete(t.m, "kv "+k)
		t.m["kv "+k] = &ent{kv: cmd[2]}
		return "ok"
	case "setex":
		d, _ := strconv.ParseInt(cmd[2], 10, 64)
		delete(t.m, "kv "+k)
		t.m["kv "+k] = &ent{kv: cmd[3], exp: now + d}
		return "ok"
	case "setnx":
		if t.live("kv", k, now) != nil {
			return "int:0"
		}
		t.m["kv "+k] = &ent{kv: cmd[2]}
		return "int:1"
	case "getset":
		old := t.live("kv", k, now)
		t.m["kv "+k] = &ent{kv: cmd[2]}
		if old == nil {
			return "null"
		}
		return "bulk:" + old.kv
	case "append":
		e := t.forWrite("kv", k, now, true)
		e.kv += cmd[2]
		return fmt.Sprintf("int:%d", len(e.kv))
	case "incr":
		e := t.forWrite("kv", k, now, true)
		v := int64(0)
		if e.kv != "" {
			var err error
			if v, err = strconv.ParseInt(e.kv, 10, 64); err != nil {
				if e.kv == "" {
					delete(t.m, "kv "+k)
				}
				return "err"
			}
		}
		e.kv = strconv.FormatInt(v+1, 10)
		return fmt.Sprintf("int:%d", v+1)
	case "del":
		if t.live("kv", k, now) != nil {
			delete(t.m, "kv "+k)
			return "int:1"
		}
		delete(t.m, "kv "+k)
		return "int:0"
	case "expire", "hexpire", "lexpire", "sexpire", "zexpire":
		d, _ := strconv.ParseInt(cmd[2], 10, 64)
		e := t.live(typ, k, now)
		if e == nil {
			return "int:0"
		}
		e.exp = now + d
		return "int:1"
	case "persist", "hpersist", "lpersist", "spersist", "zpersist":
		e := t.live(typ, k, now)
		if e == nil {
			return "int:0"
		}
		if e.exp == 0 {
			return "any" // redis: 0 when there was no ttl; not documented for the extension commands
		}
		e.exp = 0
		return "int:1"
	case "hset":
		e := t.forWrite("hash", k, now, true)
		if e.hash == nil {
			e.hash = map[string]string{}
		}
		_, had := e.hash[cmd[2]]
		e.hash[cmd[2]] = cmd[3]
		if had {
			return "int:0"
		}
		return "int:1"
	case "hdel":
		e := t.forWrite("hash", k, now, false)
		if e == nil {
			return "int:0"
		}
		_, had := e.hash[cmd[2]]
		delete(e.hash, cmd[2])
		dropIfEmpty(e)
		if had {
			return "int:1"
		}
		return "int:0"
	case "hincrby":
		e := t.forWrite("hash", k, now, true)
		if e.hash == nil {
			e.hash = map[string]string{}
		}
		v, _ := strconv.ParseInt(e.hash[cmd[2]], 10, 64)
		d, _ := strconv.ParseInt(cmd[3], 10, 64)
		e.hash[cmd[2]] = strconv.FormatInt(v+d, 10)
		return fmt.Sprintf("int:%d", v+d)
	case "hclear", "lclear", "sclear", "zclear":
		delete(t.m, typ+" "+k)
		return "any"
	case "lpush", "rpush":
		e := t.forWrite("list", k, now, true)
		for _, x := range cmd[2:] {
			if name == "lpush" {
				e.list = append([]string{x}, e.list...)
			} else {
				e.list = append(e.list, x)
			}
		}
		return fmt.Sprintf("int:%d", len(e.list))
	case "lpop":
		e := t.forWrite("list", k, now, false)
		if e == nil || len(e.list) == 0 {
			return "null"
		}
		x := e.list[0]
		e.list = e.list[1:]
		dropIfEmpty(e)
		return "bulk:" + x
	case "sadd":
		e := t.forWrite("set", k, now, true)
		if e.set == nil {
			e.set = map[string]bool{}
		}
		if e.set[cmd[2]] {
			return "int:0"
		}
		e.set[cmd[2]] = true
		return "int:1"
	case "srem":
		e := t.forWrite("set", k, now, false)
		if e == nil || !e.set[cmd[2]] {
			return "int:0"
		}
		delete(e.set, cmd[2])
		dropIfEmpty(e)
		return "int:1"
	case "zadd":
		e := t.forWrite("zset", k, now, true)
		if e.zset == nil {
			e.zset = map[string]float64{}
		}
		sc, _ := strconv.ParseFloat(cmd[2], 64)
		_, had := e.zset[cmd[3]]
		e.zset[cmd[3]] = sc
		if had {
			return "int:0"
		}
		return "int:1"
	case "zrem":
		e := t.forWrite("zset", k, now, false)
		if e == nil {
			return "int:0"
		}
		_, had := e.zset[cmd[2]]
		delete(e.zset, cmd[2])
		dropIfEmpty(e)
		if had {
			return "int:1"
		}
		return "int:0"
	}
	panic("model: unknown command " + name)
}

func matchReply(exp string, r storemc.Reply) bool {
	switch {
	case exp == "any":
		return r.Kind != "err" && r.Kind != "panic"
	case exp == "ok":
		return r.Kind == "null" || r.Kind == "int" || (r.Kind == "str" && r.S == "OK")
	case exp == "null":
		return r.Kind == "null"
	case exp == "err":
		return r.Kind == "err"
	case strings.HasPrefix(exp, "int:"):
		return r.Kind == "int" && strconv.FormatInt(r.I, 10) == exp[4:]
	case strings.HasPrefix(exp, "bulk:"):
		return r.Kind == "bulk" && r.S == exp[5:]
	}
	return false
}

// View renders what reads must show at wall clock now under wait_compact.
func (t TModel) View(u *TTLUniverse, now int64) string {
	var sb strings.Builder
	for _, k := range u.Keys {
		typ, name := k[0], k[1]
		e := t.live(typ, name, now)
		if e == nil {
			fmt.Fprintf(&sb, "%s %s: absent; ", typ, name)
			continue
		}
		ttl := int64(-1)
		if e.exp != 0 {
			ttl = e.exp - now
		}
		switch typ {
		case "kv":
			fmt.Fprintf(&sb, "kv %s=%q ttl=%d; ", name, e.kv, ttl)
		case "hash":
			fs := make([]string, 0, len(e.hash))
			for f, v := range e.hash {
				fs = append(fs, f+"="+v)
			}
			sort.Strings(fs)
			fmt.Fprintf(&sb, "hash %s=%v ttl=%d; ", name, fs, ttl)
		case "list":
			fmt.Fprintf(&sb, "list %s=%v ttl=%d; ", name, e.list, ttl)
		case "set":
			ms := make([]string, 0, len(e.set))
			for m := range e.set {
				ms = append(ms, m)
			}
			sort.Strings(ms)
			fmt.Fprintf(&sb, "set %s=%v ttl=%d; ", name, ms, ttl)
		case "zset":
			ms := make([]string, 0, len(e.zset))
			for m, s := range e.zset {
				ms = append(ms, fmt.Sprintf("%s=%v", m, s))
			}
			sort.Strings(ms)
			fmt.Fprintf(&sb, "zset %s=%v ttl=%d; ", name, ms, ttl)
		}
	}
	return sb.String()
}

// StoreView renders what the real read handlers show at the frozen wall clock now.
func StoreView(s *storemc.Store, u *TTLUniverse, now int64) string {
	SetClock(now, 0)
	var sb strings.Builder
	for _, k := range u.Keys {
		typ, name := k[0], k[1]
		var content string
		var ttlR, existR storemc.Reply
		switch typ {
		case "kv":
			r := s.Read("get", name)
			ttlR = s.Read("ttl", name)
			if r.Kind == "null" {
				content = ""
			} else {
				content = fmt.Sprintf("kv %s=%q", name, r.S)
			}
			existR = storemc.Int(0)
			if r.Kind != "null" {
				existR = storemc.Int(1)
			}
		case "hash":
			r := s.Read("hgetall", name)
			ttlR = s.Read("httl", name)
			existR = s.Read("hkeyexist", name)
			var fs []string
			for i := 0; i+1 < len(r.A); i += 2 {
				fs = append(fs, r.A[i].S+"="+r.A[i+1].S)
			}
			sort.Strings(fs)
			if len(fs) > 0 || r.Kind != "arr" {
				content = fmt.Sprintf("hash %s=%v", name, fs)
				if r.Kind != "arr" {
					content = fmt.Sprintf("hash %s=%v", name, r)
				}
			}
			if n := s.Read("hlen", name); int(n.I) != len(fs) {
				content += fmt.Sprintf("(HLEN=%v)", n)
			}
		case "list":
			r := s.Read("lrange", name, "0", "-1")
			ttlR = s.Read("lttl", name)
			existR = s.Read("lkeyexist", name)
			var fs []string
			for _, x := range r.A {
				fs = append(fs, x.S)
			}
			if len(fs) > 0 || r.Kind != "arr" {
				content = fmt.Sprintf("list %s=%v", name, fs)
			}
			if n := s.Read("llen", name); int(n.I) != len(fs) {
				content += fmt.Sprintf("(LLEN=%v)", n)
			}
		case "set":
			r := s.Read("smembers", name)
			ttlR = s.Read("sttl", name)
			existR = s.Read("skeyexist", name)
			var fs []string
			for _, x := range r.A {
				fs = append(fs, x.S)
			}
			sort.Strings(fs)
			if len(fs) > 0 || r.Kind != "arr" {
				content = fmt.Sprintf("set %s=%v", name, fs)
			}
			if n := s.Read("scard", name); int(n.I) != len(fs) {
				content += fmt.Sprintf("(SCARD=%v)", n)
			}
		case "zset":
			r := s.Read("zrange", name, "0", "-1", "withscores")
			ttlR = s.Read("zttl", name)
			existR = s.Read("zkeyexist", name)
			var fs []string
			for i := 0; i+1 < len(r.A); i += 2 {
				f, _ := strconv.ParseFloat(r.A[i+1].S, 64)
				fs = append(fs, fmt.Sprintf("%s=%v", r.A[i].S, f))
			}
			sort.Strings(fs)
			if len(fs) > 0 || r.Kind != "arr" {
				content = fmt.Sprintf("zset %s=%v", name, fs)
			}
			if n := s.Read("zcard", name); int(n.I) != len(fs) {
				content += fmt.Sprintf("(ZCARD=%v)", n)
			}
		}
		if content == "" {
			// absent: TTL must not claim a remaining life time and existence must be 0
			if ttlR.Kind == "int" && ttlR.I > 0 {
				content = fmt.Sprintf("%s %s: absent but TTL=%d", typ, name, ttlR.I)
			} else if existR.Kind == "int" && existR.I != 0 {
				content = fmt.Sprintf("%s %s: absent but KEYEXIST=%d", typ, name, existR.I)
			} else {
				content = fmt.Sprintf("%s %s: absent", typ, name)
			}
			sb.WriteString(content + "; ")
			continue
		}
		fmt.Fprintf(&sb, "%s ttl=%d; ", content, ttlR.I)
	}
	return sb.String()
}

// ---- universes -------------------------------------------------------------------------

type TTLUniverse struct {
	Name string
	Keys [][2]string // typ, name
	Cmds [][]string
}

func TTLUniverses() []*TTLUniverse {
	return []*TTLUniverse{
		{Name: "kv", Keys: [][2]string{{"kv", "t:k"}, {"kv", "t:d"}}, Cmds: [][]string{
			{"set", "t:k", "v"}, {"setex", "t:k", "1", "w"}, {"setex", "t:k", "2", "1"}, {"expire", "t:k", "1"}, {"expire", "t:k", "2"}, {"persist", "t:k"},
			{"append", "t:k", "x"}, {"incr", "t:k"}, {"getset", "t:k", "g"}, {"setnx", "t:k", "n"}, {"del", "t:k"}, {"setex", "t:d", "2", "decoy"}, {"expire", "t:k", farTTL}}},
		{Name: "hash", Keys: [][2]string{{"hash", "t:h"}, {"hash", "t:d"}}, Cmds: [][]string{
			{"hset", "t:h", "a", "1"}, {"hset", "t:h", "b", "2"}, {"hexpire", "t:h", "1"}, {"hexpire", "t:h", "2"}, {"hpersist", "t:h"}, {"hdel", "t:h", "a"},
			{"hincrby", "t:h", "a", "1"}, {"hclear", "t:h"}, {"hset", "t:d", "x", "decoy"}, {"hexpire", "t:d", "2"}, {"hexpire", "t:h", farTTL}}},
		{Name: "list", Keys: [][2]string{{"list", "t:l"}}, Cmds: [][]string{
			{"lpush", "t:l", "a"}, {"rpush", "t:l", "b"}, {"lexpire", "t:l", "1"}, {"lexpire", "t:l", "2"}, {"lpersist", "t:l"}, {"lpop", "t:l"}, {"lclear", "t:l"}}},
		{Name: "set", Keys: [][2]string{{"set", "t:s"}}, Cmds: [][]string{
			{"sadd", "t:s", "a"}, {"sadd", "t:s", "b"}, {"sexpire", "t:s", "1"}, {"sexpire", "t:s", "2"}, {"spersist", "t:s"}, {"srem", "t:s", "a"}, {"sclear", "t:s"}}},
		{Name: "zset", Keys: [][2]string{{"zset", "t:z"}}, Cmds: [][]string{
			{"zadd", "t:z", "1", "a"}, {"zadd", "t:z", "2", "b"}, {"zexpire", "t:z", "1"}, {"zexpire", "t:z", "2"}, {"zpersist", "t:z"}, {"zrem", "t:z", "a"}, {"zclear", "t:z"}}},
	}
}

// ---- BFS ---------------------------------------------------------------------------------

type tstate struct {
	dump  storemc.Dump
	clock int64
	model TModel
	path  []string
}

type TTLResult struct {
	States, Transitions, Depth int
	DeadlineHit                bool
	ExpiredObserved            int // states in which at least one key was expired at its own clock
	SweepRemoved               int
}

// the farthest expiry the store accepts at every clock of the search (ExpireAt = MaxUint32-2 at clock 3):
// still decades away, a compaction must not touch it
var farTTL = strconv.FormatInt(int64(math.MaxUint32)-2-T0-3, 10)

const maxClock = 3
const lazySec = 48 * 3600

// RunTTL explores one universe under wait_compact on one store.
func RunTTL(s *storemc.Store, u *TTLUniverse, nsOff int32, maxDepth int, col *ev.Collector, label string, dl ev.Deadline) TTLResult {
	var res TTLResult
	seen := map[string]bool{}
	key := func(d storemc.Dump, clock int64) string {
		return fmt.Sprintf("%d|", clock) + d.Key(func(k string) bool { return len(k) > 0 && k[0] == 10 })
	}
	start := tstate{dump: storemc.Dump{}, clock: 0, model: TModel{m: map[string]*ent{}}}
	seen[key(start.dump, 0)] = true
	frontier := []tstate{start}
	res.States = 1
	report := func(st tstate, ev2 string, sig, what string) {
		col.Add(ev.Violation{Property: "C10", Signature: "C10|" + sig, What: fmt.Sprintf("%s: after %v then %s: %s", label, st.path, ev2, what),
			Replay: map[string]interface{}{"label": label, "engine": s.Opt.Engine, "universe": u.Name, "ns_offset": nsOff, "path": append(append([]string(nil), st.path...), ev2)}})
	}
	for depth := 1; depth <= maxDepth && len(frontier) > 0; depth++ {
		var next []tstate
		for _, st := range frontier {
			if dl.Hit() {
				res.DeadlineHit = true
				SetClock(0, 0)
				return res
			}
			type tr struct {
				name string
				cmd  []string
			}
			var trs []tr
			for _, c := range u.Cmds {
				trs = append(trs, tr{name: strings.Join(c, " "), cmd: c})
			}
			if st.clock < maxClock {
				trs = append(trs, tr{name: "advance-1s"})
			}
			trs = append(trs, tr{name: "compact-sweep"})
			for _, t := range trs {
				s.Load(st.dump)
				m := st.model.clone()
				clock := st.clock
				var sigShape string
				bad := false
				switch {
				case t.cmd != nil:
					// every log entry carries its own, strictly increasing timestamp (the leader
					// stamps each proposal with its clock): +depth ns inside the same second
					SetClock(clock, nsOff)
					ts := (T0+clock)*1e9 + int64(nsOff) + int64(depth)
					reply := s.Write(ts, t.cmd...)
					exp := m.Apply(t.cmd, clock)
					sigShape = strings.ToLower(t.cmd[0])
					if !matchReply(exp, reply) {
						report(st, fmt.Sprintf("%s @log-clock %d", t.name, clock), sigShape+"|reply", fmt.Sprintf("reply %v, two-clock reference model says %s", reply, exp))
						bad = true
					}
				case t.name == "advance-1s":
					clock++
					sigShape = "advance"
				case t.name == "compact-sweep":
					// the most adversarial legal compaction: a wall clock 48h ahead of the log clock
					SetClock(clock+lazySec, 0)
					n, err := rockredis.VerifCompactSweep(s.DB)
					if err != nil {
						panic(err)
					}
					res.SweepRemoved += n
					sigShape = "compact-sweep"
				}
				res.Transitions++
				// reads at the current and at later wall clocks
				for _, rc := range []int64{clock, clock + 1, clock + 2} {
					got := StoreView(s, u, rc)
					want := m.View(u, rc)
					if got != want {
						rel := "at-log-clock"
						if rc > clock {
							rel = "later"
						}
						report(st, fmt.Sprintf("%s @log-clock %d", t.name, st.clock), sigShape+"|read-"+rel, fmt.Sprintf("reads at wall clock %d show {%s}, reference model says {%s}", rc, got, want))
						bad = true
						break
					}
				}
				SetClock(clock, 0)
				if bad {
					continue
				}
				d := s.Dump()
				k := key(d, clock)
				if !seen[k] {
					seen[k] = true
					res.States++
					for _, kk := range u.Keys {
						if e := m.m[kk[0]+" "+kk[1]]; e != nil && e.exp != 0 && clock >= e.exp {
							res.ExpiredObserved++
							break
						}
					}
					next = append(next, tstate{dump: d, clock: clock, model: m, path: append(append([]string(nil), st.path...), fmt.Sprintf("%s@%d", t.name, st.clock))})
				}
			}
		}
		res.Depth = depth
		frontier = next
	}
	SetClock(0, 0)
	return res
}

// RunLocalDeletion: under local_deletion background scans must never remove a key before the
// time it was given: every command sequence ≤ depth over a TTL alphabet, a scan at every
// wall clock in {0..4}; anything whose time is in the future of that clock must be complete.
func RunLocalDeletion(s *storemc.Store, col *ev.Collector, label string, maxDepth int, dl ev.Deadline) (runs, removed int, complete bool) {
	type item struct {
		typ, name string
		create    []string
		expire    string
		probe     func() string
	}
	items := []item{
		{"kv", "t:k", []string{"set", "t:k", "v"}, "expire", func() string { return s.Read("get", "t:k").String() }},
		{"hash", "t:h", []string{"hset", "t:h", "a", "1"}, "hexpire", func() string { return s.Read("hgetall", "t:h").String() }},
		{"list", "t:l", []string{"rpush", "t:l", "a"}, "lexpire", func() string { return s.Read("lrange", "t:l", "0", "-1").String() }},
		{"set", "t:s", []string{"sadd", "t:s", "a"}, "sexpire", func() string { return s.Read("smembers", "t:s").String() }},
		{"zset", "t:z", []string{"zadd", "t:z", "1", "a"}, "zexpire", func() string { return s.Read("zrange", "t:z", "0", "-1").String() }},
	}
	var cmds [][]string
	for _, it := range items {
		cmds = append(cmds, it.create, []string{it.expire, it.name, "1"}, []string{it.expire, it.name, "3"})
	}
	cmds = append(cmds, []string{"setex", "t:k", "2", "w"})
	var rec func(path [][]string)
	complete = true
	rec = func(path [][]string) {
		if dl.Hit() {
			complete = false
			return
		}
		if len(path) > 0 {
			for scanAt := int64(0); scanAt <= 4; scanAt++ {
				s.Load(storemc.Dump{})
				given := map[string]int64{} // name -> the (first, per the documented policy) expiry time given
				SetClock(0, 0)
				for i, c := range path {
					ts := (T0 + int64(i)/2) * 1e9
					r := s.Write(ts, c...)
					if (strings.HasSuffix(c[0], "expire") || c[0] == "setex") && !r.IsErr() && (r.Kind != "int" || r.I == 1) {
						d, _ := strconv.ParseInt(c[2], 10, 64)
						when := int64(i)/2 + d
						if old, ok := given[c[1]]; !ok || when < old {
							// several times may have been given to one key (the policy documents that
							// only the first one counts, the code keeps an index entry per time): the
							// oracle only demands "not before the earliest time ever given"
							given[c[1]] = when
						}
					}
				}
				before := map[string]string{}
				for _, it := range items {
					before[it.name] = it.probe()
				}
				SetClock(scanAt, 0)
				if err := rockredis.VerifLocalExpiryScan(s.DB); err != nil {
					panic(err)
				}
				runs++
				for _, it := range items {
					after := it.probe()
					if after != before[it.name] {
						removed++
						when, has := given[it.name]
						if !has || when > scanAt {
							col.Add(ev.Violation{Property: "C10", Signature: "C10|local_deletion|removed-early|" + it.typ,
								What:   fmt.Sprintf("%s: after %v an expiry scan at wall clock %d changed %s %s from %s to %s although its expiry time is %v (has=%v)", label, path, scanAt, it.typ, it.name, before[it.name], after, when, has),
								Replay: map[string]interface{}{"label": label, "path": path, "scan_at": scanAt}})
						}
					}
				}
			}
		}
		if len(path) == maxDepth {
			return
		}
		for _, c := range cmds {
			rec(append(append([][]string(nil), path...), c))
		}
	}
	rec(nil)
	SetClock(0, 0)
	return
}

var _ = common.WaitCompact

// RunSkew: log timestamps that are not monotonic (two successive leaders whose clocks disagree), all
// distinct: every triple of commands of the universe is applied with the log clocks of each pattern
// (seconds after T0); replies and what reads show at and after the last log clock are compared with the
// two-clock reference, which is indifferent to the order of the timestamps.
var skewPatterns = [][3]int64{{100, 20, 50}, {100, 20, 25}, {50, 100, 20}, {20, 100, 50}}

func RunSkew(s *storemc.Store, u *TTLUniverse, col *ev.Collector, label string, dl ev.Deadline) (runs int, complete bool) {
	for _, pat := range skewPatterns {
		for _, c1 := range u.Cmds {
			for _, c2 := range u.Cmds {
				if dl.Hit() {
					SetClock(0, 0)
					return runs, false
				}
				for _, c3 := range u.Cmds {
					cmds := [][]string{c1, c2, c3}
					// the farthest expiry is relative to the small clocks of the BFS: not used here
					skip := false
					for _, c := range cmds {
						if len(c) > 2 && c[2] == farTTL {
							skip = true
						}
					}
					if skip {
						continue
					}
					s.Load(storemc.Dump{})
					m := TModel{m: map[string]*ent{}}
					runs++
					var path []string
					bad := false
					for i, c := range cmds {
						clock := pat[i]
						SetClock(clock, 0)
						ts := (T0+clock)*1e9 + int64(i+1)
						reply := s.Write(ts, c...)
						exp := m.Apply(c, clock)
						path = append(path, fmt.Sprintf("%s@%d", strings.Join(c, " "), clock))
						if !matchReply(exp, reply) {
							col.Add(ev.Violation{Property: "C10", Signature: "C10|" + strings.ToLower(c[0]) + "|reply", What: fmt.Sprintf("%s: non-monotonic log clocks %v: reply %v, two-clock reference model says %s", label, path, reply, exp),
								Replay: map[string]interface{}{"label": label, "universe": u.Name, "path": path}})
							bad = true
							break
						}
						for _, rc := range []int64{clock, clock + 60} {
							if got, want := StoreView(s, u, rc), m.View(u, rc); got != want {
								col.Add(ev.Violation{Property: "C10", Signature: "C10|" + strings.ToLower(c[0]) + "|read-skewed-log-clock", What: fmt.Sprintf("%s: non-monotonic log clocks %v: reads at wall clock %d show {%s}, reference model says {%s}", label, path, rc, got, want),
									Replay: map[string]interface{}{"label": label, "universe": u.Name, "path": path}})
								bad = true
								break
							}
						}
						if bad {
							break
						}
					}
				}
			}
		}
	}
	SetClock(0, 0)
	return runs, true
}
