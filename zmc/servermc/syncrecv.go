package servermc

import (
	"context"
	"fmt"

	"github.com/youzan/ZanRedisDB/common"
	"github.com/youzan/ZanRedisDB/node"
	"github.com/youzan/ZanRedisDB/syncerpb"
	"zmc/ev"
)

// RunSyncReceive (C19, receive side): the gRPC entry point of the receiving cluster, Server.ApplyRaftReqs, on
// a live single-node server. The source log has 5 entries (one INCR each); a delivery is a contiguous batch
// [i..j]; every sequence of up to 3 deliveries that a syncer can produce (a batch starts at or before the
// entry after the last acknowledged one: re-sends and overlaps included, no gaps) is sent, each sequence under
// its own source-cluster name and counter key. After every acknowledged delivery the synced position is the
// highest index delivered and the counter equals it (every source entry applied exactly once).
func RunSyncReceive(col *ev.Collector, n *Node) (seqs, calls int) {
	const last = 5
	type batch struct{ i, j int }
	var batches []batch
	for i := 1; i <= last; i++ {
		for j := i; j <= last; j++ {
			batches = append(batches, batch{i, j})
		}
	}
	c, err := Dial(n.Port)
	if err != nil {
		panic(err)
	}
	defer c.Close()
	nn := n.Srv.GetNamespaceFromFullName(NS + "-0")
	seqNo := 0
	var rec func(cur []batch, acked int)
	run := func(cur []batch) {
		seqNo++
		seqs++
		cluster := fmt.Sprintf("src%d", seqNo)
		key := fmt.Sprintf("t:c%d", seqNo)
		high := 0
		for step, b := range cur {
			var reqs syncerpb.RaftReqs
			for idx := b.i; idx <= b.j; idx++ {
				ts := int64(1600000000)*1e9 + int64(seqNo)*1000 + int64(idx)
				rl := node.BatchInternalRaftRequest{ReqNum: 1, Timestamp: ts, OrigCluster: cluster}
				rl.Reqs = append(rl.Reqs, node.InternalRaftRequest{Header: node.RequestHeader{ID: uint64(seqNo*100 + idx), DataType: 0, Timestamp: ts},
					Data: common.BuildCommand([][]byte{[]byte("incr"), []byte(key)}).Raw})
				data, _ := rl.Marshal()
				reqs.RaftLog = append(reqs.RaftLog, syncerpb.RaftLogData{Type: syncerpb.EntryNormalRaw, ClusterName: cluster, RaftGroupName: NS + "-0", Term: 1, Index: uint64(idx), RaftTimestamp: ts, Data: data})
			}
			rsp, err := n.Srv.ApplyRaftReqs(context.Background(), &reqs)
			calls++
			if err != nil || rsp == nil || rsp.ErrCode != 0 || rsp.ErrMsg != "" {
				col.Outcome("sync-receive:refused")
				return // a refused delivery is re-sent by the syncer; nothing to judge
			}
			if b.j > high {
				high = b.j
			}
			_, idx, _ := nn.Node.GetRemoteClusterSyncedRaft(cluster)
			r, _ := c.Do("get", NS+":"+key)
			got := r.S
			if r.Kind == "null" {
				got = "0"
			}
			if int(idx) != high || got != fmt.Sprint(high) {
				col.Add(ev.Violation{Property: "C19", Signature: fmt.Sprintf("C19|receive|delivery-%d-of-%d|position-or-count", step+1, len(cur)),
					What:   fmt.Sprintf("Server.ApplyRaftReqs: deliveries %v of a 5-entry source log (one INCR per entry), all acknowledged: after delivery %d the synced index is %d and the counter is %s, both should be %d", cur, step+1, idx, got, high),
					Replay: map[string]interface{}{"deliveries": fmt.Sprint(cur)}})
				return
			}
		}
	}
	rec = func(cur []batch, acked int) {
		if len(cur) > 0 {
			run(cur)
		}
		if len(cur) == 3 {
			return
		}
		for _, b := range batches {
			if b.i <= acked+1 {
				na := acked
				if b.j > na {
					na = b.j
				}
				rec(append(append([]batch(nil), cur...), b), na)
			}
		}
	}
	rec(nil, 0)
	return seqs, calls
}
