package storemc

import (
	"fmt"
	"strconv"
	"strings"
)

// Read side of C08: in every distinct logical state the parameterised range/rank/lookup reads are
// compared with the reference (Redis semantics computed from the state that ZRANGE 0 -1 WITHSCORES,
// LRANGE 0 -1, HGETALL, SMEMBERS and GET show).

var scoreBounds = []string{"-inf", "+inf", "-1", "(-1", "0", "1", "(1", "1.5", "2", "(2"}
var lexBounds = []string{"-", "+", "[", "(", "[a", "(a", "[b", "(b"}
var idxBounds = []string{"-3", "-2", "-1", "0", "1", "2", "3"}

func lexIn(m, lo, hi string) (in bool, valid bool) {
	okLo, okHi := false, false
	switch {
	case lo == "-":
		okLo = true
	case lo == "+":
		okLo = false
	case strings.HasPrefix(lo, "["):
		okLo = m >= lo[1:]
	case strings.HasPrefix(lo, "("):
		okLo = m > lo[1:]
	default:
		return false, false
	}
	switch {
	case hi == "+":
		okHi = true
	case hi == "-":
		okHi = false
	case strings.HasPrefix(hi, "["):
		okHi = m <= hi[1:]
	case strings.HasPrefix(hi, "("):
		okHi = m < hi[1:]
	default:
		return false, false
	}
	return okLo && okHi, true
}

func revStrs(a []string) []string {
	out := make([]string, len(a))
	for i := range a {
		out[len(a)-1-i] = a[i]
	}
	return out
}

// ReadModel: expected reply of a read command in logical state l; defined=false when the reference is silent.
func ReadModel(l Logical, cmd []string) (Expect, bool) {
	a := cmd[1:]
	switch cmd[0] {
	case "zrangebyscore", "zrevrangebyscore", "zcount":
		lo, hi := a[1], a[2]
		if cmd[0] == "zrevrangebyscore" {
			lo, hi = a[2], a[1]
		}
		lb, ok1 := parseScoreBound(lo)
		hb, ok2 := parseScoreBound(hi)
		if !ok1 || !ok2 {
			return eErr(), true
		}
		var out []string
		for _, it := range zsorted(l.ZSet[a[0]]) {
			if (it.s > lb.v || (it.s == lb.v && !lb.excl)) && (it.s < hb.v || (it.s == hb.v && !hb.excl)) {
				out = append(out, it.m)
			}
		}
		switch cmd[0] {
		case "zcount":
			return eInt(int64(len(out))), true
		case "zrevrangebyscore":
			out = revStrs(out)
		}
		if len(out) == 0 {
			return eNull(), true
		}
		return eArr(out), true
	case "zrangebylex", "zlexcount":
		// defined by Redis only when all scores are equal
		items := zsorted(l.ZSet[a[0]])
		for _, it := range items {
			if it.s != items[0].s {
				return eUnspec(), false
			}
		}
		var out []string
		for _, it := range items {
			in, valid := lexIn(it.m, a[1], a[2])
			if !valid {
				return eErr(), true
			}
			if in {
				out = append(out, it.m)
			}
		}
		if _, valid := lexIn("", a[1], a[2]); !valid {
			return eErr(), true
		}
		if cmd[0] == "zlexcount" {
			return eInt(int64(len(out))), true
		}
		if len(out) == 0 {
			return eNull(), true
		}
		return eArr(out), true
	case "zrange", "zrevrange":
		i, _ := parseInt(a[1])
		j, _ := parseInt(a[2])
		items := zsorted(l.ZSet[a[0]])
		var ms []string
		for _, it := range items {
			ms = append(ms, it.m)
		}
		if cmd[0] == "zrevrange" {
			ms = revStrs(ms)
		}
		lo, hi, ok := normRange(i, j, int64(len(ms)))
		if !ok {
			return eNull(), true
		}
		return eArr(ms[lo : hi+1]), true
	case "zrank", "zrevrank":
		items := zsorted(l.ZSet[a[0]])
		for i, it := range items {
			if it.m == a[1] {
				if cmd[0] == "zrevrank" {
					return eInt(int64(len(items) - 1 - i)), true
				}
				return eInt(int64(i)), true
			}
		}
		return eNull(), true
	case "lrange":
		i, _ := parseInt(a[1])
		j, _ := parseInt(a[2])
		lo, hi, ok := normRange(i, j, int64(len(l.List[a[0]])))
		if !ok {
			return eNull(), true
		}
		return eArr(l.List[a[0]][lo : hi+1]), true
	case "getrange":
		v, ok := l.KV[a[0]]
		if !ok {
			v = ""
		}
		// GETRANGE clamps a negative end to 0 after the shift (unlike LRANGE): redis t_string.c
		i, _ := parseInt(a[1])
		j, _ := parseInt(a[2])
		n := int64(len(v))
		if i < 0 && j < 0 && i > j || n == 0 {
			return Expect{Kind: "emptybulk"}, true
		}
		if i < 0 {
			i += n
		}
		if j < 0 {
			j += n
		}
		if i < 0 {
			i = 0
		}
		if j < 0 {
			j = 0
		}
		if j >= n {
			j = n - 1
		}
		if i > j {
			return Expect{Kind: "emptybulk"}, true
		}
		return eBulk(v[i : j+1]), true
	case "strlen":
		return eInt(int64(len(l.KV[a[0]]))), true
	case "exists":
		// redis counts a key as often as it is named
		n := int64(0)
		for _, k := range a {
			if _, ok := l.KV[k]; ok {
				n++
			}
		}
		return eInt(n), true
	case "hmget":
		// checked element-wise by the caller
		return eUnspec(), false
	}
	return eUnspec(), false
}

func readInstances(u *Universe) [][]string {
	var out [][]string
	for _, k := range u.ZSet {
		for _, lo := range scoreBounds {
			for _, hi := range scoreBounds {
				out = append(out, []string{"zrangebyscore", k, lo, hi}, []string{"zrevrangebyscore", k, hi, lo}, []string{"zcount", k, lo, hi})
			}
		}
		for _, lo := range lexBounds {
			for _, hi := range lexBounds {
				out = append(out, []string{"zrangebylex", k, lo, hi}, []string{"zlexcount", k, lo, hi})
			}
		}
		for _, i := range idxBounds {
			for _, j := range idxBounds {
				out = append(out, []string{"zrange", k, i, j}, []string{"zrevrange", k, i, j})
			}
		}
		for _, m := range u.Fields {
			out = append(out, []string{"zrank", k, m}, []string{"zrevrank", k, m})
		}
	}
	for _, k := range u.List {
		for _, i := range idxBounds {
			for _, j := range idxBounds {
				out = append(out, []string{"lrange", k, i, j})
			}
		}
	}
	if len(u.KV) > 0 {
		k, j := u.KV[0], u.KV[len(u.KV)-1]
		out = append(out, []string{"exists", k}, []string{"exists", k, k}, []string{"exists", k, j}, []string{"exists", k, j, k}, []string{"exists", j, j, j})
	}
	for _, k := range u.KV {
		out = append(out, []string{"strlen", k})
		for _, i := range idxBounds {
			for _, j := range idxBounds {
				out = append(out, []string{"getrange", k, i, j})
			}
		}
	}
	return out
}

// ReadOracle returns an Oracle that checks every read instance once per distinct logical state.
func ReadOracle() (Oracle, func() (states, reads int)) {
	seen := map[string]bool{}
	var insts [][]string
	var forU *Universe
	reads := 0
	o := func(s *Store, u *Universe, before Logical, cmd []string, reply Reply, after Logical, probs []string) [][3]string {
		key := u.Name + "|" + after.String()
		if seen[key] {
			return nil
		}
		seen[key] = true
		if forU != u {
			insts, forU = readInstances(u), u
		}
		var out [][3]string
		for _, rc := range insts {
			exp, defined := ReadModel(after, rc)
			if !defined {
				continue
			}
			var r Reply
			if rc[0] == "exists" {
				r = s.MergeInt(rc...)
			} else {
				r = s.Read(rc...)
			}
			reads++
			ok := exp.Matches(r)
			if exp.Kind == "emptybulk" {
				ok = r.Kind == "null" || (r.Kind == "bulk" && r.S == "")
			}
			if !ok {
				shape := rc[0]
				out = append(out, [3]string{"C08", "C08|read|" + shape, fmt.Sprintf("in the state reached, %v answers %v, reference model says %v", rc, r, exp)})
				if len(out) > 3 {
					break
				}
			}
		}
		for _, k := range u.Hash {
			if len(u.Fields) >= 2 {
				fs := u.Fields
				r := s.Read(append([]string{"hmget", k}, fs...)...)
				reads++
				bad := r.Kind != "arr" || len(r.A) != len(fs)
				if !bad {
					for i, f := range fs {
						v, ok := after.Hash[k][f]
						if ok && (r.A[i].Kind != "bulk" || r.A[i].S != v) || !ok && r.A[i].Kind != "null" {
							bad = true
						}
					}
				}
				if bad {
					out = append(out, [3]string{"C08", "C08|read|hmget", fmt.Sprintf("HMGET %s %q answers %v but HGETALL shows %v", k, fs, r, after.Hash[k])})
				}
			}
		}
		return out
	}
	return o, func() (int, int) { return len(seen), reads }
}

func ScoreBounds() []string { return scoreBounds }
func LexBounds() []string   { return lexBounds }
func IdxBounds() []string   { return idxBounds }

var _ = strconv.Itoa
