package servermc

import (
	"fmt"
	"github.com/youzan/ZanRedisDB/rockredis"
	"sort"
	"strings"

	"github.com/absolute8511/redcon"
	"github.com/youzan/ZanRedisDB/common"
	"github.com/youzan/ZanRedisDB/node"
	"github.com/youzan/ZanRedisDB/server"
	zanredisdb "github.com/youzan/go-zanredisdb"
	"zmc/ev"
)

// C15 part A: server routing vs the client SDK, for every key over an alphabet and every
// partition count 1..1024.

func keysOver(alpha []byte, maxLen int) [][]byte {
	var out [][]byte
	var rec func(cur []byte)
	rec = func(cur []byte) {
		out = append(out, append([]byte(nil), cur...))
		if len(cur) == maxLen {
			return
		}
		for _, b := range alpha {
			rec(append(cur, b))
		}
	}
	rec(nil)
	return out
}

type RouteStats struct {
	Keys, Comparisons, Rejected int
}

func RunHashAgreement(col *ev.Collector, maxLen int, dl ev.Deadline) (st RouteStats, complete bool) {
	alpha := []byte{'a', ':', '0', 0x00, 0xff, '-'}
	suffixes := keysOver(alpha, maxLen)
	routers := make([]*node.NamespaceMgr, 1025)
	for p := 1; p <= 1024; p++ {
		routers[p] = node.VerifNewRouter("ns", p)
	}
	for _, table := range []string{"t", "tab-1"} {
		for _, suf := range suffixes {
			if dl.Hit() {
				return st, false
			}
			st.Keys++
			full := append([]byte("ns:"+table+":"), suf...)
			// server side: exactly what the redis API does before dispatching
			cmd := redcon.Command{Args: [][]byte{[]byte("get"), full}}
			ns, pk, pkSum, err := server.GetPKAndHashSum("get", cmd)
			if err != nil || ns != "ns" {
				col.Add(ev.Violation{Property: "C15", Signature: "C15|hash|key-rejected", What: fmt.Sprintf("server rejects key %q: ns=%q err=%v", full, ns, err)})
				st.Rejected++
				continue
			}
			// client side: the official SDK
			sk := zanredisdb.NewPKey("ns", table, suf).ShardingKey()
			for p := 1; p <= 1024; p++ {
				st.Comparisons++
				srv, rerr := routers[p].VerifRoute(ns, pk)
				sdk := zanredisdb.GetHashedPartitionID(sk, p)
				if rerr != nil || srv != sdk || srv < 0 || srv >= p {
					col.Add(ev.Violation{Property: "C15", Signature: "C15|hash|server-and-sdk-disagree",
						What:   fmt.Sprintf("key %q with %d partitions: server routes to %d (err %v, hash sum %d), the SDK computes %d", full, p, srv, rerr, pkSum, sdk),
						Replay: map[string]interface{}{"key": fmt.Sprintf("%q", full), "partitions": p}})
					break
				}
			}
		}
	}
	return st, true
}

// ---- part B: multi-key commands on a live multi-partition server -----------------------------

type MergeStats struct {
	Commands, Writes int
	PartitionsHit    int
}

func pidOf(key string, parts int) int {
	return node.GetHashedPartitionID([]byte(strings.SplitN(key, ":", 2)[1]), parts)
}

// a pool of 4 keys hitting >= 3 of the 4 partitions
func KeyPool(parts int) []string {
	hit := map[int]string{}
	var pool []string
	for i := 0; len(pool) < 4 && i < 1000; i++ {
		k := fmt.Sprintf("%s:t:k%d", NS, i)
		p := pidOf(k, parts)
		if _, ok := hit[p]; !ok || (len(hit) >= 3 && len(pool) == 3) {
			hit[p] = k
			pool = append(pool, k)
		}
	}
	return pool
}

func argLists(pool []string, maxLen int) [][]string {
	var out [][]string
	var rec func(cur []string)
	rec = func(cur []string) {
		if len(cur) > 0 {
			out = append(out, append([]string(nil), cur...))
		}
		if len(cur) == maxLen {
			return
		}
		for _, k := range pool {
			rec(append(cur, k))
		}
	}
	rec(nil)
	return out
}

func RunMerge(col *ev.Collector, n *Node, dl ev.Deadline) (st MergeStats, complete bool) {
	c, err := Dial(n.Port)
	if err != nil {
		panic(err)
	}
	defer c.Close()
	pool := KeyPool(n.Parts)
	hit := map[int]bool{}
	for _, k := range pool {
		hit[pidOf(k, n.Parts)] = true
	}
	st.PartitionsHit = len(hit)
	dumps := func() []string {
		out := make([]string, n.Parts)
		for i := 0; i < n.Parts; i++ {
			out[i] = DumpKey(n.PartDump(i))
		}
		return out
	}
	// prior states: empty, and every pool key present
	for _, prior := range []string{"empty", "all-present", "half-present"} {
		reset := func() map[string]string {
			model := map[string]string{}
			for _, k := range pool {
				c.Do("del", k)
			}
			for i, k := range pool {
				if prior == "all-present" || (prior == "half-present" && i%2 == 0) {
					c.Do("set", k, "v"+k)
					model[k] = "v" + k
				}
			}
			return model
		}
		report := func(sig, what string, args []string) {
			col.Add(ev.Violation{Property: "C15", Signature: "C15|merge|" + sig, What: fmt.Sprintf("prior state %s, pool %v (partitions %v): %s", prior, pool, partsOf(pool, n.Parts), what),
				Replay: map[string]interface{}{"prior": prior, "args": args, "pool": pool}})
		}
		for _, keys := range argLists(pool, 3) {
			if dl.Hit() {
				return st, false
			}
			owners := map[int]bool{}
			for _, k := range keys {
				owners[pidOf(k, n.Parts)] = true
			}
			span := "one-partition"
			if len(owners) > 1 {
				span = "cross-partition"
			}
			dupl := ""
			if hasDup(keys) {
				dupl = "+duplicate-key"
			}
			// EXISTS (read, merged)
			model := reset()
			r, _ := c.Do(append([]string{"exists"}, keys...)...)
			st.Commands++
			want := 0
			seen := map[string]bool{}
			for _, k := range keys {
				if _, ok := model[k]; ok && !seen[k] {
					want++
				}
				seen[k] = true
			}
			wantDup := 0
			for _, k := range keys {
				if _, ok := model[k]; ok {
					wantDup++
				}
			}
			// redis counts a key named twice twice; both readings are accepted for EXISTS
			if r.Kind != "int" || (int(r.I) != want && int(r.I) != wantDup) {
				report("exists|"+span+dupl, fmt.Sprintf("EXISTS %v replied %v, single-store model says %d", keys, r, wantDup), append([]string{"exists"}, keys...))
			}
			// MGET (single-partition read by registration): data of the right keys or an error, never a silent partial result
			r, _ = c.Do(append([]string{"mget"}, keys...)...)
			st.Commands++
			if r.Kind != "err" {
				ok := r.Kind == "arr" && len(r.A) == len(keys)
				if ok {
					for i, k := range keys {
						v, has := model[k]
						if has && !(r.A[i].Kind == "bulk" && r.A[i].S == v) {
							ok = false
						}
						if !has && r.A[i].Kind != "null" {
							ok = false
						}
					}
				}
				if !ok {
					report("mget|"+span+dupl, fmt.Sprintf("MGET %v replied %v; single-store model says %v (an error refusing keys of several partitions would be accepted too)", keys, r, modelVals(model, keys)), append([]string{"mget"}, keys...))
				}
			}
			// DEL (write, merged): only owners change, count as one store
			before := dumps()
			r, _ = c.Do(append([]string{"del"}, keys...)...)
			st.Commands++
			st.Writes++
			after := dumps()
			if r.Kind != "int" || int(r.I) != want {
				report("del|"+span+dupl+"|reply", fmt.Sprintf("DEL %v replied %v, single-store model says %d", keys, r, want), append([]string{"del"}, keys...))
			}
			for i := 0; i < n.Parts; i++ {
				if before[i] != after[i] && !owners[i] {
					report("del|foreign-partition-changed", fmt.Sprintf("DEL %v changed partition %d which owns none of the keys", keys, i), append([]string{"del"}, keys...))
				}
			}
			for _, k := range pool {
				g, _ := c.Do("get", k)
				_, deleted := seen[k]
				v, had := model[k]
				if deleted && g.Kind != "null" {
					report("del|"+span+dupl+"|state", fmt.Sprintf("after DEL %v key %s still holds %v", keys, k, g), append([]string{"del"}, keys...))
				}
				if !deleted && had && !(g.Kind == "bulk" && g.S == v) {
					report("del|"+span+dupl+"|state", fmt.Sprintf("after DEL %v the untouched key %s reads %v, expected %q", keys, k, g, v), append([]string{"del"}, keys...))
				}
			}
			// PLSET k v k v ... (one reply per pair: it is what a pipeline of SETs becomes) and the
			// pipeline of SETs itself: each value lands in its own key's partition
			for _, form := range []string{"plset", "pipelined-sets"} {
				model = reset()
				args := []string{"plset"}
				var raw []byte
				for i, k := range keys {
					args = append(args, k, fmt.Sprintf("w%d", i))
					raw = append(raw, Encode([]string{"set", k, fmt.Sprintf("w%d", i)})...)
				}
				if form == "plset" {
					raw = Encode(args)
				}
				before = dumps()
				rs, derr := c.DoN(raw, len(keys))
				st.Commands++
				st.Writes++
				after = dumps()
				if derr != nil {
					report(form+"|"+span+dupl+"|reply-count", fmt.Sprintf("%s of %d pairs %v: reading %d replies failed: %v (got %v)", form, len(keys), keys, len(keys), derr, rs), args)
					// resynchronise on a fresh connection
					c.Close()
					c, _ = Dial(n.Port)
					continue
				}
				anyErr := false
				for _, r := range rs {
					if r.Kind == "err" {
						anyErr = true
					} else if !(r.Kind == "str" && r.S == "OK") {
						report(form+"|"+span+dupl+"|reply", fmt.Sprintf("%s %v replied %v", form, keys, rs), args)
					}
				}
				exp := map[string]string{}
				for k, v := range model {
					exp[k] = v
				}
				for i, k := range keys {
					exp[k] = fmt.Sprintf("w%d", i) // last occurrence wins
				}
				for i := 0; i < n.Parts; i++ {
					if before[i] != after[i] && !owners[i] {
						report(form+"|foreign-partition-changed", fmt.Sprintf("%s %v changed partition %d which owns none of the keys", form, keys, i), args)
					}
				}
				if !anyErr {
					for _, k := range pool {
						g, _ := c.Do("get", k)
						v, has := exp[k]
						if (has && !(g.Kind == "bulk" && g.S == v)) || (!has && g.Kind != "null") {
							report(form+"|"+span+dupl+"|state", fmt.Sprintf("after %s %v (replies %v) key %s reads %v, single-store model says %q (present %v)", form, args[1:], rs, k, g, v, has), args)
						}
					}
				}
			}
		}
	}
	return st, true
}

func hasDup(keys []string) bool {
	s := map[string]bool{}
	for _, k := range keys {
		if s[k] {
			return true
		}
		s[k] = true
	}
	return false
}

func partsOf(pool []string, parts int) []int {
	var o []int
	for _, k := range pool {
		o = append(o, pidOf(k, parts))
	}
	return o
}

func modelVals(m map[string]string, keys []string) []string {
	var o []string
	for _, k := range keys {
		if v, ok := m[k]; ok {
			o = append(o, v)
		} else {
			o = append(o, "nil")
		}
	}
	return o
}

var _ = sort.Strings
var _ = common.ErrInvalidArgs

// RunPartialHost: a data node that hosts only partitions 0 and 1 of a 3-partition namespace (the usual
// situation in a cluster). A command that names a key of the partition it does not host must be
// refused as a whole: no nil in place of a value it cannot know, no partial write on the hosted ones.
func RunPartialHost(col *ev.Collector, n *Node) (cmds int) {
	c, err := Dial(n.Port)
	if err != nil {
		panic(err)
	}
	defer c.Close()
	// one key per partition
	keyOf := map[int]string{}
	for i := 0; len(keyOf) < 3 && i < 1000; i++ {
		k := fmt.Sprintf("%s:t:h%d", NS, i)
		if _, ok := keyOf[pidOf(k, 3)]; !ok {
			keyOf[pidOf(k, 3)] = k
		}
	}
	c.Do("set", keyOf[0], "v0")
	c.Do("set", keyOf[1], "v1")
	dump := func() string { return DumpKey(n.PartDump(0)) + "|" + DumpKey(n.PartDump(1)) }
	for _, hosted := range []int{0, 1} {
		for _, order := range [][]int{{hosted, 2}, {2, hosted}, {hosted, 2, hosted}} {
			var keys []string
			for _, p := range order {
				keys = append(keys, keyOf[p])
			}
			for _, cmd := range []string{"mget", "exists", "del"} {
				before := dump()
				r, err := c.Do(append([]string{cmd}, keys...)...)
				cmds++
				if err != nil {
					panic(err)
				}
				if r.Kind != "err" {
					col.Add(ev.Violation{Property: "C15", Signature: "C15|partial-host|" + cmd + "|answered", What: fmt.Sprintf("a node hosting partitions 0 and 1 of 3 answers %s %v (keys of partitions %v) with %v instead of refusing it: it cannot know the key of partition 2", cmd, keys, order, r)})
				}
				if after := dump(); after != before {
					col.Add(ev.Violation{Property: "C15", Signature: "C15|partial-host|" + cmd + "|partial-effect", What: fmt.Sprintf("%s %v (partitions %v) changed the hosted partitions although partition 2 is not hosted (reply %v)", cmd, keys, order, r)})
					c.Do("set", keyOf[0], "v0")
					c.Do("set", keyOf[1], "v1")
				}
			}
			// PLSET answers per pair: the pair of the unhosted partition must be an error
			var args []string
			for _, k := range keys {
				args = append(args, k, "w")
			}
			rs, err := c.DoFramed(append([]string{"plset"}, args...))
			cmds++
			if err == nil {
				nerr := 0
				for _, r := range rs {
					if r.Kind == "err" {
						nerr++
					}
				}
				if nerr == 0 {
					col.Add(ev.Violation{Property: "C15", Signature: "C15|partial-host|plset|answered", What: fmt.Sprintf("PLSET on keys of partitions %v answers %v: no error although partition 2 is not hosted", order, rs)})
				}
			}
			c.Do("set", keyOf[0], "v0")
			c.Do("set", keyOf[1], "v1")
		}
	}
	// single-key commands on the unhosted partition
	for _, cmd := range [][]string{{"get", keyOf[2]}, {"set", keyOf[2], "x"}, {"incr", keyOf[2]}} {
		r, _ := c.Do(cmd...)
		cmds++
		if r.Kind != "err" {
			col.Add(ev.Violation{Property: "C15", Signature: "C15|partial-host|" + cmd[0] + "|answered", What: fmt.Sprintf("%v on a key of the partition that is not hosted answers %v", cmd, r)})
		}
	}
	return cmds
}

// RunRecreated: a namespace that existed with 2 partitions is created again with 4 while a replica of the
// old layout is still registered on the node (the old partition 0 lingers). Every key must be routed by the
// new partition count, as the SDK does for a 4-partition namespace.
func RunRecreated(col *ev.Collector, n *Node) (keys int) {
	const base = "re"
	raftAddr := fmt.Sprintf("http://127.0.0.1:%d", n.Port+2)
	initPart := func(i, parts int, gid uint64) error {
		ns := node.NewNSConfig()
		ns.Name = fmt.Sprintf("%s-%d", base, i)
		ns.BaseName = base
		ns.EngType = rockredis.EngType
		ns.PartitionNum = parts
		ns.Replicator = 1
		ns.SnapCount = 100000
		ns.ExpirationPolicy = common.WaitCompactExpirationPolicy
		ns.DataVersion = common.ValueHeaderV1Str
		ns.RaftGroupConf.GroupID = gid
		ns.RaftGroupConf.SeedNodes = append(ns.RaftGroupConf.SeedNodes, node.ReplicaInfo{NodeID: 1, ReplicaID: 1, RaftAddr: raftAddr})
		nn, err := n.Srv.InitKVNamespace(1, ns, false)
		if err != nil {
			return err
		}
		return nn.Start(false)
	}
	if err := initPart(0, 2, 2000); err != nil {
		col.Outcome("recreated:init-old-failed:" + err.Error())
		return 0
	}
	for i := 1; i < 4; i++ {
		if err := initPart(i, 4, uint64(2000+i)); err != nil {
			col.Outcome("recreated:init-new-failed:" + err.Error())
			return 0
		}
	}
	for i := 0; i < 400; i++ {
		pk := []byte(fmt.Sprintf("tbl:key-%d", i))
		want := node.GetHashedPartitionID(pk, 4) // what the SDK computes (agreement with the SDK is the first part of the check)
		nn, err := n.Srv.GetNamespace(base, pk)
		keys++
		if want == 0 {
			continue // the new partition 0 does not exist on this node (the old one lingers under its name)
		}
		if err != nil || nn == nil {
			col.Add(ev.Violation{Property: "C15", Signature: "C15|recreated|no-owner", What: fmt.Sprintf("namespace created again with 4 partitions (was 2): key %q of partition %d has no owner on the node that hosts it: %v", pk, want, err)})
			return keys
		}
		if nn.FullName() != fmt.Sprintf("%s-%d", base, want) {
			col.Add(ev.Violation{Property: "C15", Signature: "C15|recreated|routed-by-old-partition-count", What: fmt.Sprintf("namespace created again with 4 partitions (was 2): key %q belongs to partition %d (SDK) but the server routes it to %s", pk, want, nn.FullName())})
			return keys
		}
	}
	return keys
}
