//go:build verif

// Injected by /verif (go build -overlay); never part of the repository.
package cluster

// VerifSetReplicaEpoch lets an in-memory PDRegister hand out replica infos with an epoch
// (the field is unexported; the etcd register sets it from the store's modify index).
func VerifSetReplicaEpoch(p *PartitionReplicaInfo, e EpochType) { p.epoch = e }
