//go:build verif

// Injected by /verif (go build -overlay); never part of the repository.
package wal

// VerifSilence turns the package logger off (the enumerator reopens millions of images).
func VerifSilence() { plog.Logger = nil }
