module zmc

go 1.21

require (
	github.com/absolute8511/redcon v0.9.3
	github.com/anishathalye/porcupine v1.3.0
	github.com/gobwas/glob v0.2.3
	github.com/youzan/ZanRedisDB v0.0.0
	github.com/youzan/go-zanredisdb v0.6.3
)

require (
	github.com/AndreasBriese/bbloom v0.0.0-20190306092124-e2d15f34fcf9 // indirect
	github.com/absolute8511/go-hll v0.0.0-20190228064837-043118556d83 // indirect
	github.com/absolute8511/hyperloglog v0.0.0-20171127080255-5259284545fc // indirect
	github.com/absolute8511/hyperloglog2 v0.1.1 // indirect
	github.com/absolute8511/redigo v1.4.6 // indirect
	github.com/beorn7/perks v1.0.1 // indirect
	github.com/certifi/gocertifi v0.0.0-20200211180108-c7c1fbc02894 // indirect
	github.com/cespare/xxhash/v2 v2.1.1 // indirect
	github.com/cockroachdb/errors v1.2.4 // indirect
	github.com/cockroachdb/logtags v0.0.0-20190617123548-eb05cc24525f // indirect
	github.com/cockroachdb/pebble v0.0.0-20200616214509-8de6baeca713 // indirect
	github.com/coreos/etcd v3.1.15+incompatible // indirect
	github.com/coreos/go-semver v0.2.0 // indirect
	github.com/coreos/go-systemd v0.0.0-20180511133405-39ca1b05acc7 // indirect
	github.com/coreos/pkg v0.0.0-20180108230652-97fdf19511ea // indirect
	github.com/dgraph-io/badger v0.0.0-20190301165350-b669ca040b3d // indirect
	github.com/dgryski/go-bits v0.0.0-20180113010104-bd8a69a71dc2 // indirect
	github.com/dgryski/go-farm v0.0.0-20190104051053-3adb47b1fb0f // indirect
	github.com/dgryski/go-metro v0.0.0-20180109044635-280f6062b5bc // indirect
	github.com/dustin/go-humanize v1.0.0 // indirect
	github.com/emirpasic/gods v1.12.0 // indirect
	github.com/getsentry/raven-go v0.2.0 // indirect
	github.com/gogo/protobuf v1.3.1 // indirect
	github.com/golang/protobuf v1.3.2 // indirect
	github.com/golang/snappy v0.0.2-0.20190904063534-ff6b7dc882cf // indirect
	github.com/hashicorp/go-immutable-radix v1.3.0 // indirect
	github.com/hashicorp/golang-lru v0.5.4 // indirect
	github.com/julienschmidt/httprouter v1.2.0 // indirect
	github.com/matttproud/golang_protobuf_extensions v1.0.1 // indirect
	github.com/pkg/errors v0.9.1 // indirect
	github.com/prometheus/client_golang v1.3.0 // indirect
	github.com/prometheus/client_model v0.1.0 // indirect
	github.com/prometheus/common v0.7.0 // indirect
	github.com/prometheus/procfs v0.0.8 // indirect
	github.com/shirou/gopsutil v0.0.0-20180427012116-c95755e4bcd7 // indirect
	github.com/tidwall/gjson v1.1.0 // indirect
	github.com/tidwall/match v1.0.1 // indirect
	github.com/tidwall/sjson v1.0.0 // indirect
	github.com/twmb/murmur3 v1.1.5 // indirect
	github.com/ugorji/go v0.0.0-20170107133203-ded73eae5db7 // indirect
	github.com/xiang90/probing v0.0.0-20160813154853-07dd2e8dfe18 // indirect
	github.com/youzan/gorocksdb v0.0.0-20201201080653-1a9b5c65c962 // indirect
	go.uber.org/atomic v1.6.0 // indirect
	go.uber.org/multierr v1.5.0 // indirect
	go.uber.org/zap v1.16.0 // indirect
	golang.org/x/exp v0.0.0-20200513190911-00229845015e // indirect
	golang.org/x/net v0.0.0-20191209160850-c0dbc17a3553 // indirect
	golang.org/x/sys v0.0.0-20200519105757-fe76b779f299 // indirect
	golang.org/x/text v0.3.0 // indirect
	google.golang.org/genproto v0.0.0-20180518175338-11a468237815 // indirect
	google.golang.org/grpc v1.9.2 // indirect
	gopkg.in/natefinch/lumberjack.v2 v2.0.0 // indirect
)

replace github.com/youzan/ZanRedisDB => /repo

replace github.com/hashicorp/go-immutable-radix v1.3.0 => github.com/absolute8511/go-immutable-radix v1.3.1-0.20210225131658-3dcbbb786587
