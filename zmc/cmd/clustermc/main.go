// clustermc: C04, deviation-bounded exhaustive exploration of a 3-replica cluster of real KVNodes.
package main

import (
	"bufio"
	"encoding/json"
	"flag"
	"fmt"
	"os"
	"os/exec"
	"runtime"
	"strings"
	"sync"
	"time"

	"github.com/youzan/ZanRedisDB/raft"
	"zmc/clustermc"
	"zmc/ev"
)

func scenarios(tier string) []clustermc.Scenario {
	c := clustermc.NS + ":t:c"
	g := clustermc.NS + ":t:g"
	incr := func(n int) clustermc.Op { return clustermc.Op{Cmd: []string{"incr", c}, Node: n} }
	getset := func(v string, n int) clustermc.Op { return clustermc.Op{Cmd: []string{"getset", g, v}, Node: n} }
	setnx := func(v string, n int) clustermc.Op { return clustermc.Op{Cmd: []string{"setnx", g, v}, Node: n} }
	keys := [][]string{{"get", c}, {"get", g}}
	// no duplication: the transport (TCP streams, no retransmission) never delivers a message twice and the statement does not ask for it;
	// a duplicated forwarded MsgProp is appended and applied twice (observed, see DESIGN.md C04)
	faults := clustermc.Budget{Drop: 1, Stop: 1, Transfer: 1, Tick: 2, Timeout: 1}
	kk := func(i int) string { return fmt.Sprintf("%s:t:k%d", clustermc.NS, i) }
	gs := func(i int, v string) clustermc.Op { return clustermc.Op{Cmd: []string{"getset", kk(i), v}} }
	return []clustermc.Scenario{
		// every write on its own key: a replica that applies another command than the one that was
		// acknowledged (a payload changed between proposal and replication) ends with other data
		{Name: "distinct-keys", Progs: [][]clustermc.Op{{gs(1, "a"), gs(2, "b"), gs(3, "c")}, {gs(4, "d")}}, Keys: [][]string{{"get", kk(1)}, {"get", kk(2)}, {"get", kk(3)}, {"get", kk(4)}}, Max: faults, Horizon: 90},
		// a persistent engine: a restarted replica meets the data it had applied before it stopped
		{Name: "incr-pebble", Progs: [][]clustermc.Op{{incr(0), incr(0)}, {incr(0)}}, Keys: keys, Max: faults, Horizon: 90, Engine: "pebble"},
		{Name: "two-clients-incr", Progs: [][]clustermc.Op{{incr(0), incr(0)}, {incr(0)}}, Keys: keys, Max: faults, Horizon: 90},
		{Name: "getset-setnx", Progs: [][]clustermc.Op{{getset("a", 0), setnx("x", 0)}, {getset("b", 0)}}, Keys: keys, Max: faults, Horizon: 90},
		{Name: "call-at-follower", Progs: [][]clustermc.Op{{incr(2), incr(1)}, {incr(3)}}, Keys: keys, Max: faults, Horizon: 90},
	}
}

type subtree struct {
	Prefix []int
}

type workerOut struct {
	Execs     int               `json:"execs"`
	Outcomes  map[string]int    `json:"outcomes"`
	Violation []clustermc.Exec  `json:"-"`
	Viol      []json.RawMessage `json:"viol"`
	Infra     string            `json:"infra"`
	Deadline  bool              `json:"deadline"`
	Retries   int               `json:"retries"`
	Skipped   int               `json:"skipped"`
	LastSkip  string            `json:"last_skip"`
	MaxPoints int               `json:"max_points"`
}

// explore the subtree below prefix with at most `bound` deviations in total.
func explore(sc clustermc.Scenario, prefix []int, bound int, dl time.Time, out *workerOut, emit func(x *clustermc.Exec), parent *clustermc.Exec) {
	if time.Now().After(dl) {
		out.Deadline = true
		return
	}
	// an execution is a function of its choice list; if a replay does not follow the execution it was taken
	// from (quiescence was observed too early under load) it is run again; a subtree that still cannot be
	// replayed is counted as skipped (the run is then not exhaustive), never judged
	var x *clustermc.Exec
	for try := 0; try < 3; try++ {
		x = clustermc.Run(sc, prefix, false)
		out.Execs++
		if x.Infra == "" && parent != nil {
			for i := 0; i < len(prefix); i++ {
				if i >= len(x.Points) || fmt.Sprint(x.Points[i].Enabled) != fmt.Sprint(parent.Points[i].Enabled) {
					x.Infra = fmt.Sprintf("replay of prefix %v diverged at step %d from the execution it was taken from", prefix, i)
					break
				}
			}
		}
		if x.Infra == "" {
			break
		}
		out.Retries++
	}
	if x.Infra != "" {
		out.Skipped++
		out.LastSkip = x.Infra
		return
	}
	if len(x.Points) > out.MaxPoints {
		out.MaxPoints = len(x.Points)
	}
	clustermc.Check(sc, x)
	emit(x)
	if x.Violation != "" {
		return
	}
	if x.Devs >= bound {
		return
	}
	for i := len(prefix); i < len(x.Points); i++ {
		for alt := 1; alt < len(x.Points[i].Enabled); alt++ {
			np := append(append([]int(nil), x.Choices[:i]...), alt)
			explore(sc, np, bound, dl, out, emit, x)
			if out.Infra != "" {
				return
			}
		}
	}
}

func outcomeOf(x *clustermc.Exec) string {
	var parts []string
	for _, o := range x.History {
		r := o.Reply
		if o.Err != "" {
			r = "ERR"
		}
		if o.Return == 0 {
			r = "open"
		}
		parts = append(parts, fmt.Sprintf("c%d:%s", o.Client, r))
	}
	return strings.Join(parts, ",") + " => " + x.Final[0]
}

func workerMain(scName, tier string, bound, w, W int, budget time.Duration) {
	// one P: goroutines interleave only at blocking points and sync.Pool hands a released object to the next
	// taker (a pooled buffer that is still referenced is then really reused), both make an execution more
	// a function of its choice list
	runtime.GOMAXPROCS(1)
	raft.VerifSetRandDraw(4)
	var sc clustermc.Scenario
	for _, s := range scenarios(tier) {
		if s.Name == scName {
			sc = s
		}
	}
	out := &workerOut{Outcomes: map[string]int{}}
	enc := json.NewEncoder(os.Stdout)
	emit := func(x *clustermc.Exec) {
		out.Outcomes[outcomeOf(x)]++
		if x.Violation != "" {
			// re-run with the trace for the report
			y := clustermc.Run(sc, x.Choices, true)
			clustermc.Check(sc, y)
			b, _ := json.Marshal(map[string]interface{}{"sig": x.Sig, "what": x.Violation, "choices": x.Choices, "trace": y.Trace, "reproduced": y.Violation != ""})
			out.Viol = append(out.Viol, b)
		}
	}
	dl := time.Now().Add(budget)
	root := clustermc.Run(sc, nil, false)
	for try := 0; try < 3 && root.Infra != ""; try++ {
		root = clustermc.Run(sc, nil, false)
	}
	if root.Infra != "" {
		out.Infra = root.Infra
		enc.Encode(out)
		return
	}
	if w == 0 {
		out.Execs++
		clustermc.Check(sc, root)
		emit(root)
		// determinism: the default execution twice
		same := false
		for try := 0; try < 3 && !same; try++ {
			r2 := clustermc.Run(sc, nil, false)
			same = r2.Fingerprint(1<<30) == root.Fingerprint(1<<30)
		}
		if !same {
			out.Infra = "the default execution is not deterministic"
		}
	}
	if bound >= 1 {
		k := 0
		for i := 0; i < len(root.Points) && out.Infra == ""; i++ {
			for alt := 1; alt < len(root.Points[i].Enabled); alt++ {
				if k%W == w {
					np := append(append([]int(nil), root.Choices[:i]...), alt)
					explore(sc, np, bound, dl, out, emit, root)
				}
				k++
			}
		}
	}
	enc.Encode(out)
}

func main() {
	tier := flag.String("tier", "quick", "")
	replay := flag.String("replay", "", "")
	worker := flag.String("worker", "", "internal: scenario,bound,w,W,budget_s")
	flag.Parse()
	if *worker != "" {
		var name string
		var bound, w, W, bs int
		p := strings.Split(*worker, ",")
		name = p[0]
		fmt.Sscan(p[1], &bound)
		fmt.Sscan(p[2], &w)
		fmt.Sscan(p[3], &W)
		fmt.Sscan(p[4], &bs)
		workerMain(name, *tier, bound, w, W, time.Duration(bs)*time.Second)
		return
	}
	if *replay != "" {
		os.Exit(doReplay(*replay, *tier))
	}
	os.Exit(run(*tier))
}

func doReplay(file, tier string) int {
	raft.VerifSetRandDraw(4)
	var rec struct {
		Replay struct {
			Scenario string `json:"scenario"`
			Choices  []int  `json:"choices"`
		} `json:"replay"`
	}
	b, err := os.ReadFile(file)
	if err != nil || json.Unmarshal(b, &rec) != nil {
		fmt.Println("INFRA: cannot read", file)
		return 2
	}
	for _, s := range scenarios(tier) {
		if s.Name == rec.Replay.Scenario {
			x := clustermc.Run(s, rec.Replay.Choices, true)
			clustermc.Check(s, x)
			for _, l := range x.Trace {
				fmt.Println("  ", l)
			}
			fmt.Println("final:", x.Final)
			if x.Violation != "" {
				fmt.Println("VIOLATION:", x.Violation)
				return 1
			}
			fmt.Println("no violation on this run", x.Infra)
			return 0
		}
	}
	return 2
}

func runBound(sc clustermc.Scenario, tier string, bound, W int, per time.Duration, col *ev.Collector) (execs, maxPoints int, outcomes map[string]int, infra string, deadline bool, skipped int) {
	var mu sync.Mutex
	var wg sync.WaitGroup
	outcomes = map[string]int{}
	for w := 0; w < W; w++ {
		wg.Add(1)
		go func(w int) {
			defer wg.Done()
			cmd := exec.Command(os.Args[0], "-tier", tier, "-worker", fmt.Sprintf("%s,%d,%d,%d,%d", sc.Name, bound, w, W, int(per.Seconds())))
			cmd.Stderr = nil
			so, _ := cmd.StdoutPipe()
			if err := cmd.Start(); err != nil {
				mu.Lock()
				infra = err.Error()
				mu.Unlock()
				return
			}
			var last string
			br := bufio.NewReaderSize(so, 1<<20)
			for {
				l, err := br.ReadString('\n')
				if strings.HasPrefix(l, "{") {
					last = l
				}
				if err != nil {
					break
				}
			}
			cmd.Wait()
			var o workerOut
			if json.Unmarshal([]byte(last), &o) != nil {
				mu.Lock()
				infra = fmt.Sprintf("worker %d of %s ended without a result", w, sc.Name)
				mu.Unlock()
				return
			}
			mu.Lock()
			defer mu.Unlock()
			execs += o.Execs
			if o.MaxPoints > maxPoints {
				maxPoints = o.MaxPoints
			}
			for k, v := range o.Outcomes {
				outcomes[k] += v
			}
			if o.Infra != "" {
				infra = o.Infra
			}
			if o.Deadline {
				deadline = true
			}
			skipped += o.Skipped
			for _, vb := range o.Viol {
				var v struct {
					Sig, What  string
					Choices    []int
					Trace      []string
					Reproduced bool
				}
				json.Unmarshal(vb, &v)
				if !v.Reproduced {
					col.Outcome("violation-not-reproduced:" + v.Sig)
					continue
				}
				col.Add(ev.Violation{Property: "C04", Signature: "C04|" + v.Sig + "|" + sc.Name, What: fmt.Sprintf("%s: %s; schedule: %s", sc.Name, v.What, strings.Join(v.Trace, " ; ")),
					Replay: map[string]interface{}{"scenario": sc.Name, "choices": v.Choices}})
			}
		}(w)
	}
	wg.Wait()
	return
}

func run(tier string) int {
	quick := tier == "quick"
	col := ev.NewCollector("C04", tier, "model_checking")
	budget := ev.EnvDur("VERIF_BUDGET", map[bool]time.Duration{true: 180 * time.Second, false: 40 * time.Minute}[quick])
	maxBound := 2
	if !quick {
		maxBound = 3
	}
	scs := scenarios(tier)
	W := 16
	start := time.Now()
	totalExecs := 0
	var perScenario []interface{}
	distinctOutcomes := 0
	totalSkipped := 0
	completedBound := maxBound
	for b := 1; b <= maxBound; b++ {
		for si, sc := range scs {
			left := budget - time.Since(start)
			remaining := (maxBound-b)*len(scs) + len(scs) - si
			per := left / time.Duration(remaining)
			if b == maxBound {
				per = left / time.Duration(len(scs)-si)
			}
			if per < 5*time.Second {
				per = 5 * time.Second
			}
			t0 := time.Now()
			execs, maxPoints, outcomes, infra, deadline, skipped := runBound(sc, tier, b, W, per, col)
			if skipped > 0 {
				deadline = true // not complete
				totalSkipped += skipped
			}
			if infra != "" {
				fmt.Println("INFRA:", infra)
				col.Finish()
				return 2
			}
			if deadline && completedBound >= b {
				completedBound = b - 1
			}
			totalExecs += execs
			if b == 1 || len(outcomes) > 0 {
				distinctOutcomes += len(outcomes)
			}
			perScenario = append(perScenario, map[string]interface{}{"scenario": sc.Name, "programs": fmt.Sprint(sc.Progs), "executions": execs, "deviation_bound": b, "bound_completed": !deadline,
				"longest_execution_events": maxPoints, "distinct_outcomes": len(outcomes), "wall_s": time.Since(t0).Seconds()})
			fmt.Printf("[C04] %s: deviation bound %d: executions=%d completed=%v longest=%d events, distinct outcomes=%d %.1fs\n", sc.Name, b, execs, !deadline, maxPoints, len(outcomes), time.Since(t0).Seconds())
			n := 0
			for k, v := range outcomes {
				if n < 2 && b == 1 {
					col.Sample(map[string]interface{}{"scenario": sc.Name, "outcome": k, "executions": v})
				}
				n++
			}
		}
	}
	col.Set("states", totalExecs)
	col.Set("transitions", totalExecs)
	col.Set("traces_validated_against_impl", totalExecs)
	col.Set("evaluations", totalExecs)
	col.Set("distinct_nontrivial", distinctOutcomes)
	col.Set("scenarios", perScenario)
	col.Set("subtrees_skipped_because_a_replay_diverged_three_times", totalSkipped)
	col.Set("deviation_bound_completed_for_every_scenario", completedBound)
	col.Set("exhaustive", completedBound >= 1)
	col.Set("rule", "stateless depth-first exploration with a deviation bound (iterative context bounding: bound 1 completely, then bound 2, ...) of three real KVNodes of one namespace partition in one process; the explorer owns message delivery (FIFO per link, any order across links), loss, single clock ticks, an election timeout, replica stop/restart on its directory, leadership transfer and the start of each client call; after every event the cluster runs to quiescence (goroutine-state inspection), so an execution is a function of its choice list (every replayed prefix is compared with the execution it was taken from); default = start calls, then deliver on the lowest link; every other choice is a deviation; at the end the cluster is healed and every replica read; oracle: porcupine linearizability of the call/return history (unanswered or failed calls may take effect once or never) with the final reads, and equality of all replicas. 'states' counts complete executions (the search is stateless); 'exhaustive' refers to deviation bound 1, the highest bound completed for every scenario is reported separately; non-trivial = distinct (replies, final data) outcomes")
	col.Assume = []string{"faults happen at quiescent instants between two events (a kill inside a step is C06's subject)", "no snapshot transfer (SnapCount above the history length)", "mem engine", "no message duplication (the transport never duplicates; a duplicated forwarded proposal would be applied twice)"}
	if distinctOutcomes < 2 && col.NumViolationSigs() == 0 {
		fmt.Println("INFRA: vacuous (a single outcome)")
		col.Finish()
		return 2
	}
	return col.Finish()
}
