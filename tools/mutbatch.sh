#!/bin/bash
# mutbatch.sh <ID> [tier] — run every mutations/<ID>-*.diff against check <ID>
ID=$1; TIER=${2:-quick}
for m in /verif/mutations/$ID-*.diff; do /verif/tools/mutate.sh $m $ID $TIER; done
