#!/bin/bash
# seedverify.sh <worktree> <ID> : confirm a seeded change independently (builds, baseline passes, its demonstration
# fails with the change and passes without), then run check <ID> quick against it through the mutation overlay.
# Prints one summary line; copies SEED/ to /verif/seeded/<name>/ when everything is confirmed.
WT=$(readlink -f "$1"); ID=$2; NAME=$(basename "$WT")
Z=/tmp/zrkit/zrgo
cd "$WT" || exit 2
[ -f SEED/patch.diff ] || { echo "$NAME: no SEED/patch.diff"; exit 2; }
LOG=/tmp/seedverify-$NAME.log; : > $LOG
# the worktree must contain exactly the patch
git stash -q -u -- . ':!SEED' >> $LOG 2>&1 || true
git checkout -q -- . ; git apply SEED/patch.diff >> $LOG 2>&1 || { echo "$NAME: patch does not apply"; exit 2; }
$Z build ./... >> $LOG 2>&1; B=$?
$Z test -count=1 ./common/... ./internal/... ./metric/... ./pkg/... ./settings/... ./slow/... >> $LOG 2>&1; T=$?
( timeout 900 bash SEED/demo/run.sh ) >> $LOG 2>&1; D1=$?
git apply -R SEED/patch.diff >> $LOG 2>&1
( timeout 900 bash SEED/demo/run.sh ) >> $LOG 2>&1; D0=$?
git apply SEED/patch.diff >> $LOG 2>&1
git status --short | grep -v SEED | head -5 >> $LOG
OUT=$(/verif/tools/mutate.sh "$WT/SEED/patch.diff" $ID quick 2>&1 | tail -1)
echo "$NAME: build=$B baseline=$T demo_with=$D1 demo_without=$D0 check: $OUT"
