package main

import (
	"fmt"
	"io/ioutil"
	"os"

	"zmc/walmc"
	"github.com/youzan/ZanRedisDB/wal"
)

func main() {
	wal.VerifSilence()
	wal.SegmentSizeBytes = 1024
	dir := "/dev/shm/zrverif/probe-wal/wal"
	os.RemoveAll("/dev/shm/zrverif/probe-wal")
	obs, recs, err := walmc.Execute(dir, []walmc.Op{{Kind: "save", N: 2, Size: 500}, {Kind: "save", N: 1, Size: 7}, {Kind: "commit"}}, false)
	fmt.Println(len(obs), len(recs), err)
	for _, o := range obs {
		fmt.Println(o.Label, "durable", o.Durable, "issued", o.Issued)
		for n, b := range o.Files {
			fmt.Println("   ", n, len(b), "synced", o.Synced[n])
		}
	}
	fis, _ := ioutil.ReadDir(dir)
	for _, fi := range fis {
		fmt.Println(fi.Name(), fi.Size())
	}
	f, err, rep := walmc.Recover(dir)
	fmt.Println(len(f.Ents), f.State, err, rep)
}
