// Package raftmc drives real raft.Node objects of /repo/raft single-threaded and exposes the
// cluster as an explore.Sys. One event = one macro-step of one replica (DESIGN.md E2).
package raftmc

import (
	"bytes"
	"context"
	"crypto/md5"
	"encoding/binary"
	"fmt"
	"github.com/youzan/ZanRedisDB/node"
	"io/ioutil"
	"log"
	"sort"
	"strings"

	"github.com/youzan/ZanRedisDB/engine"
	"github.com/youzan/ZanRedisDB/raft"
	pb "github.com/youzan/ZanRedisDB/raft/raftpb"
	"zmc/deep"
	"zmc/explore"
)

// ---- events -------------------------------------------------------------

const (
	EvTick = iota + 1
	EvTimeout
	EvDeliver
	EvDeliverDup
	EvDrop
	EvPropose
	EvConf
	EvCrash
	EvRestart
	EvCompact
	EvTransfer
	EvUnreachable // the transport reports that it could not send to a replica (rafthttp does on a failed send)
	EvDeliverPair // a snapshot message and another message to the same replica are both queued when it steps (one Ready)
)

// crash modes carried in the C field of a node event
const (
	CrashNone = 0
	CrashP    = 1 // persisted everything, sent nothing
	CrashE    = 2 // entries (and snapshot) persisted, hard state not (torn tail of the one WAL write)
	CrashL    = 3 // new-leader Ready: messages sent, nothing persisted (production sends first)
)

var kindNames = map[int]string{EvTick: "tick", EvTimeout: "timeout", EvDeliver: "deliver", EvDeliverDup: "deliver-dup",
	EvDrop: "drop", EvPropose: "propose", EvConf: "conf", EvCrash: "crash", EvRestart: "restart", EvCompact: "compact", EvTransfer: "transfer", EvUnreachable: "unreachable", EvDeliverPair: "deliver-pair"}

func Ev(kind, a, b, c int) uint32 { return uint32(kind)<<24 | uint32(a)<<12 | uint32(b)<<4 | uint32(c) }
func unEv(e uint32) (kind, a, b, c int) {
	return int(e >> 24), int(e >> 12 & 0xfff), int(e >> 4 & 0xff), int(e & 0xf)
}

// conf change kinds (B field of EvConf; A = proposer, low bits of C unused, target in B>>2)
const (
	ConfAddVoter   = 0
	ConfAddLearner = 1
	ConfRemove     = 2
)

type Config struct {
	Name            string
	N               int    // initial voters 1..N
	Spare           string // "", "voter", "learner": extra replica N+1 started without peers (join)
	PreVote         bool
	CheckQuorum     bool
	Storage         string // "mem" | "rocks"
	ET              []int  // election tick per replica (default 2)
	MaxSizeOne      bool   // MaxSizePerMsg = MaxCommittedSizePerReady = 0 → one entry per message / Ready page
	EarlySnapReport bool   // the transport reports a snapshot as sent when it leaves the sender, not when the receiver has stepped it
	Deciding        string // when set, oracle failures of the other raft properties are counted but do not end the path: the state that breaks C01 is usually the one from which C03 breaks a few steps later
	MixedSizes      bool   // MaxSizePerMsg = MaxCommittedSizePerReady = 100 bytes and proposals of 1 / 200 / 1 / 200 ... bytes

	// budgets
	MaxDup, MaxDrop, MaxCrash, MaxProp, MaxConf, MaxCompact, MaxTransfer, MaxTick, MaxUnreach, MaxPair int
	CrashModes                                                                                         []int // additional in-step crash modes enabled
	UseTimeout                                                                                         bool
	UseTick                                                                                            bool
	MaxTerm                                                                                            uint64 // ticks/timeouts are disabled for a non-leader replica whose term reached this (0 = 4)
}

type rnode struct {
	id             uint64
	n              raft.Node
	st             raft.IExtRaftStorage
	eng            engine.KVEngine
	alive          bool
	removed        bool
	learner        bool // started in learner role
	applied        uint64
	conf           pb.ConfState
	snapHash       []byte // app-level state digest at applied (chain hash)
	wasState       raft.StateType
	commitRecorded uint64
}

type netMsg struct {
	key []byte
	m   pb.Message
	cnt int
}

type entryID struct {
	Term uint64
	Typ  pb.EntryType
	Sum  [16]byte
}

type Cluster struct {
	cfg          *Config
	nodes        []*rnode
	net          []netMsg
	used         struct{ dup, drop, crash, prop, conf, compact, transfer, tick, unreach, pair int }
	propSeq      int
	earlyReports [][2]uint64 // (sender, receiver) of snapshots whose "sent" report is due after the current pump

	// oracle history variables
	leaderOf map[uint64]uint64
	chosen   map[uint64]entryID
	chosenAt map[uint64]uint64   // term of the replica that first reported the index committed
	chain    map[uint64][16]byte // index → digest of applied prefix
	bad      []explore.Bad
	promoted uint64 // bit t: an add-voter change for replica t was applied by some replica (ground truth for the learner oracles)

	// observation counters (vacuity guards), not part of the state
	Obs     map[string]int
	enc     *deep.Enc
	Trace   []string
	Verbose bool
}

var discard = &raft.DefaultLogger{Logger: log.New(ioutil.Discard, "", 0)}

func groupOf(id uint64) pb.Group {
	return pb.Group{NodeId: id, Name: "g", GroupId: 1, RaftReplicaId: id}
}

func (c *Cluster) raftConfig(id uint64, st raft.Storage) *raft.Config {
	et := 2
	if int(id-1) < len(c.cfg.ET) && c.cfg.ET[id-1] > 0 {
		et = c.cfg.ET[id-1]
	}
	rc := &raft.Config{ID: id, ElectionTick: et, HeartbeatTick: 1, Storage: st, MaxInflightMsgs: 4,
		MaxSizePerMsg: 1 << 20, MaxCommittedSizePerReady: 1 << 20,
		CheckQuorum: c.cfg.CheckQuorum, PreVote: c.cfg.PreVote, Logger: discard, Group: groupOf(id)}
	if c.cfg.MixedSizes {
		// a size limit that a big entry exceeds and a small one does not: pages are cut inside the log
		rc.MaxSizePerMsg = 100
		rc.MaxCommittedSizePerReady = 100
	}
	if c.cfg.MaxSizeOne {
		rc.MaxSizePerMsg = 0
		rc.MaxCommittedSizePerReady = 1 // validate() turns 0 into MaxSizePerMsg; 1 byte = one entry per page
	}
	return rc
}

func (c *Cluster) newStorage(id uint64) (raft.IExtRaftStorage, engine.KVEngine) {
	if c.cfg.Storage == "rocks" {
		return newRocksStorage(id)
	}
	return raft.NewRealMemoryStorage(), nil
}

func New(cfg *Config) *Cluster {
	c := &Cluster{cfg: cfg, leaderOf: map[uint64]uint64{}, chosen: map[uint64]entryID{}, chosenAt: map[uint64]uint64{}, chain: map[uint64][16]byte{}, Obs: map[string]int{}}
	c.enc = deep.New()
	for _, s := range []string{"raft.node.propQ", "raft.node.msgQ", "raft.node.logger", "raft.raft.logger", "raft.raftLog.logger",
		"raft.unstable.logger", "raft.raft.matchBuf", "raft.raftLog.storage", "raft.node.eventNotifyCh", "raft.node.tickc"} {
		c.enc.Skip[s] = true
	}
	c.enc.SkipTypes["sync.Mutex"] = true
	c.enc.SkipTypes["sync.RWMutex"] = true
	total := cfg.N
	if cfg.Spare != "" {
		total++
	}
	var peers []raft.Peer
	for i := 1; i <= cfg.N; i++ {
		peers = append(peers, raft.Peer{NodeID: uint64(i), ReplicaID: uint64(i)})
	}
	for i := 1; i <= total; i++ {
		id := uint64(i)
		st, eng := c.newStorage(id)
		nd := &rnode{id: id, st: st, eng: eng, alive: true}
		if i <= cfg.N {
			nd.n = raft.StartNode(c.raftConfig(id, st), peers, false)
		} else {
			nd.learner = cfg.Spare == "learner"
			nd.n = raft.StartNode(c.raftConfig(id, st), nil, nd.learner)
		}
		c.nodes = append(c.nodes, nd)
	}
	for _, nd := range c.nodes {
		c.pump(nd, CrashNone)
	}
	return c
}

func (c *Cluster) Close() {
	for _, nd := range c.nodes {
		if nd.n != nil {
			nd.n.Stop()
		}
		if nd.eng != nil {
			nd.st.Close()
		}
	}
}

func (c *Cluster) fail(prop, sig, what string) {
	if c.cfg.Deciding != "" && prop != c.cfg.Deciding {
		c.Obs["failure-of-"+prop+":"+sig]++
		return
	}
	c.bad = append(c.bad, explore.Bad{Property: prop, Signature: sig, What: what})
}

func (c *Cluster) Bad() []explore.Bad { return c.bad }

func sumEntry(e pb.Entry) entryID {
	return entryID{Term: e.Term, Typ: e.Type, Sum: md5.Sum(e.Data)}
}

// ---- network --------------------------------------------------------------

func (c *Cluster) send(m pb.Message) {
	b, err := m.Marshal()
	if err != nil {
		panic(err)
	}
	i := sort.Search(len(c.net), func(i int) bool { return bytes.Compare(c.net[i].key, b) >= 0 })
	if i < len(c.net) && bytes.Equal(c.net[i].key, b) {
		c.net[i].cnt++
		return
	}
	// deep copy through unmarshal so that nothing aliases raft's buffers
	var cp pb.Message
	if err := cp.Unmarshal(b); err != nil {
		panic(err)
	}
	c.net = append(c.net, netMsg{})
	copy(c.net[i+1:], c.net[i:])
	c.net[i] = netMsg{key: b, m: cp, cnt: 1}
}

func (c *Cluster) take(k int, keep bool) pb.Message {
	var m pb.Message
	if err := m.Unmarshal(c.net[k].key); err != nil {
		panic(err)
	}
	if !keep {
		c.net[k].cnt--
		if c.net[k].cnt == 0 {
			c.net = append(c.net[:k], c.net[k+1:]...)
		}
	}
	return m
}

func (c *Cluster) node(id uint64) *rnode {
	if id == 0 || int(id) > len(c.nodes) {
		return nil
	}
	return c.nodes[id-1]
}

// ---- one macro step ----------------------------------------------------------

func (c *Cluster) crash(nd *rnode) {
	if nd.n != nil {
		nd.n.Stop()
	}
	nd.n = nil
	nd.alive = false
}

// pump processes Readys of nd until none is left (production: serveChannels/processReady).
func (c *Cluster) pump(nd *rnode, crashMode int) {
	defer func() {
		if r := recover(); r != nil {
			c.fail("C02", "raft-panic", fmt.Sprintf("replica %d panicked: %v", nd.id, r))
			c.crash(nd)
		}
	}()
	var pendingCC []pb.ConfChange
	awaiting := 0
	for iter := 0; ; iter++ {
		if iter > 64 {
			c.fail("C02", "pump-livelock", fmt.Sprintf("replica %d: more than 64 Readys for one event", nd.id))
			return
		}
		if len(pendingCC) > 0 && !raft.VerifConfQueued(nd.n) && awaiting == 0 {
			raft.VerifQueueConfChange(nd.n, pendingCC[0])
			pendingCC = pendingCC[1:]
			awaiting++
		}
		rd, ok := nd.n.StepNode(true, false)
		if cs, got := raft.VerifTakeConfState(nd.n); got {
			nd.conf = canonCS(cs)
			awaiting--
		}
		if !ok {
			if len(pendingCC) == 0 && awaiting == 0 {
				break
			}
			continue
		}
		v := raft.VerifNodeView(nd.n)
		c.observe(nd, v, &rd)
		isNewLeader := rd.SoftState != nil && rd.RaftState == raft.StateLeader
		if crashMode == CrashL {
			if isNewLeader {
				c.sendAll(nd, rd.Messages)
				c.Obs["crashL-effective"]++
			}
			// not a new-leader Ready: nothing persisted, nothing sent = the event was lost
			c.crash(nd)
			return
		}
		// persist (production: WAL save, then raftStorage.ApplySnapshot/Append)
		if !raft.IsEmptySnap(rd.Snapshot) {
			if err := nd.st.ApplySnapshot(rd.Snapshot); err != nil && err != raft.ErrSnapOutOfDate {
				panic(err)
			}
		}
		if crashMode != CrashE && !raft.IsEmptyHardState(rd.HardState) {
			nd.st.SetHardState(rd.HardState)
		}
		if err := nd.st.Append(rd.Entries); err != nil {
			panic(err)
		}
		c.shadowCheck(nd)
		if crashMode == CrashE || crashMode == CrashP {
			c.crash(nd)
			return
		}
		// hand committed entries / snapshot to the application
		if !raft.IsEmptySnap(rd.Snapshot) {
			c.applySnapshot(nd, rd.Snapshot)
		}
		removedSelf := false
		for _, e := range rd.CommittedEntries {
			c.applyEntry(nd, e)
			if e.Type == pb.EntryConfChange {
				var cc pb.ConfChange
				if err := cc.Unmarshal(e.Data); err != nil {
					panic(err)
				}
				if isNewLeader {
					pendingCC = append(pendingCC, cc)
				} else {
					nd.conf = canonCS(raft.VerifHandleConfChanged(nd.n, cc))
				}
				if cc.Type == pb.ConfChangeRemoveNode && cc.ReplicaID == nd.id {
					removedSelf = true
				}
			}
		}
		c.sendAll(nd, rd.Messages)
		nd.n.Advance(rd)
		if removedSelf {
			// production: the node destroys itself after applying its own removal
			c.crash(nd)
			nd.removed = true
			return
		}
	}
	raft.VerifDrainNotify(nd.n)
	v := raft.VerifNodeView(nd.n)
	c.observe(nd, v, nil)
}

// learnerByHistory: the replica joined as a learner and no add-voter change for it has been applied anywhere,
// whatever the replica itself believes after a restart.
func (c *Cluster) learnerByHistory(nd *rnode) bool {
	return nd.learner && c.promoted&(1<<nd.id) == 0
}

func (c *Cluster) sendAll(nd *rnode, msgs []pb.Message) {
	v := raft.VerifNodeView(nd.n)
	for _, m := range msgs {
		if (m.Type == pb.MsgVoteResp || m.Type == pb.MsgPreVoteResp) && !m.Reject {
			c.Obs["vote-granted"]++
			if v.IsLearner || c.learnerByHistory(nd) {
				c.fail("C01", "learner-grants-vote", fmt.Sprintf("learner %d granted %v to %d at term %d", nd.id, m.Type, m.To, m.Term))
			}
		}
		if (m.Type == pb.MsgVoteResp || m.Type == pb.MsgPreVoteResp) && m.Reject {
			c.Obs["vote-rejected"]++
		}
		if m.Type == pb.MsgSnap {
			c.Obs["msgsnap-sent"]++
		}
		if m.To == nd.id {
			continue
		}
		c.send(m)
		if m.Type == pb.MsgSnap && c.cfg.EarlySnapReport {
			c.earlyReports = append(c.earlyReports, [2]uint64{nd.id, m.To})
		}
	}
}

// observe evaluates the C01 oracle and records commits (C03) after a raft step.
func (c *Cluster) observe(nd *rnode, v raft.VerifView, rd *raft.Ready) {
	if v.State == raft.StateLeader {
		c.Obs["leader-seen"]++
		if old, ok := c.leaderOf[v.Term]; ok && old != v.ID {
			c.fail("C01", "two-leaders-one-term", fmt.Sprintf("replicas %d and %d both leader in term %d", old, v.ID, v.Term))
		}
		c.leaderOf[v.Term] = v.ID
		if nd.wasState != raft.StateLeader {
			c.leaderCompleteness(nd, v)
		}
	}
	if (v.IsLearner || c.learnerByHistory(nd)) && (v.State == raft.StateLeader || v.State == raft.StateCandidate || v.State == raft.StatePreCandidate) {
		c.fail("C01", "learner-campaigns", fmt.Sprintf("learner %d is %v in term %d", v.ID, v.State, v.Term))
	}
	if v.State == raft.StateCandidate {
		c.Obs["candidate-seen"]++
	}
	nd.wasState = v.State
	if rd != nil && !raft.IsEmptyHardState(rd.HardState) && rd.HardState.Commit > nd.commitRecorded {
		// everything up to Commit in this replica's log is reported committed
		ents := raft.VerifLogEntries(nd.n)
		for _, e := range ents {
			if e.Index > nd.commitRecorded && e.Index <= rd.HardState.Commit {
				c.recordChosen(nd, e, "commit")
			}
		}
		nd.commitRecorded = rd.HardState.Commit
	}
}

func (c *Cluster) recordChosen(nd *rnode, e pb.Entry, how string) {
	id := sumEntry(e)
	if old, ok := c.chosen[e.Index]; ok {
		if old != id {
			prop := "C02"
			if how == "commit" {
				prop = "C03"
			}
			c.fail(prop, "different-entry-at-committed-index", fmt.Sprintf("replica %d %s index %d: term %d type %v, but another replica had term %d type %v there", nd.id, how, e.Index, e.Term, e.Type, old.Term, old.Typ))
		}
		return
	}
	c.chosen[e.Index] = id
	c.chosenAt[e.Index] = raft.VerifNodeView(nd.n).Term
}

func (c *Cluster) leaderCompleteness(nd *rnode, v raft.VerifView) {
	ents := raft.VerifLogEntries(nd.n)
	have := map[uint64]entryID{}
	for _, e := range ents {
		have[e.Index] = sumEntry(e)
	}
	for idx, id := range c.chosen {
		if idx < v.FirstIndex {
			continue // covered by this replica's snapshot
		}
		if c.chosenAt[idx] >= v.Term {
			// Leader completeness speaks about leaders of later terms: a replica that wins a
			// stale election (term ≤ the term in which the entry was committed) need not have it.
			continue
		}
		h, ok := have[idx]
		if !ok {
			c.fail("C03", "leader-misses-committed-entry", fmt.Sprintf("replica %d became leader in term %d without committed index %d (log [%d,%d])", nd.id, v.Term, idx, v.FirstIndex, v.LastIndex))
			return
		}
		if h != id {
			c.fail("C03", "leader-has-different-committed-entry", fmt.Sprintf("replica %d became leader in term %d with term %d at committed index %d (committed term %d)", nd.id, v.Term, h.Term, idx, id.Term))
			return
		}
	}
}

func (c *Cluster) applyEntry(nd *rnode, e pb.Entry) {
	if e.Index != nd.applied+1 {
		c.fail("C02", "apply-gap", fmt.Sprintf("replica %d handed index %d after applied %d", nd.id, e.Index, nd.applied))
	}
	c.recordChosen(nd, e, "applies")
	nd.applied = e.Index
	if e.Type == pb.EntryConfChange {
		var cc pb.ConfChange
		if cc.Unmarshal(e.Data) == nil && cc.Type == pb.ConfChangeAddNode && cc.ReplicaID < 64 {
			c.promoted |= 1 << cc.ReplicaID
		}
	}
	// digest of the applied prefix (stands for the state machine content in snapshots)
	prev := c.chain[e.Index-1]
	h := md5.New()
	h.Write(prev[:])
	id := sumEntry(e)
	var b [9]byte
	binary.BigEndian.PutUint64(b[:], id.Term)
	b[8] = byte(id.Typ)
	h.Write(b[:])
	h.Write(id.Sum[:])
	var d [16]byte
	copy(d[:], h.Sum(nil))
	if old, ok := c.chain[e.Index]; ok && old != d {
		// already reported by recordChosen for some index ≤ this one
	} else {
		c.chain[e.Index] = d
	}
	c.Obs["applied"]++
}

func (c *Cluster) applySnapshot(nd *rnode, s pb.Snapshot) {
	c.Obs["snapshot-applied"]++
	if s.Metadata.Index < nd.applied {
		c.fail("C02", "snapshot-behind-applied", fmt.Sprintf("replica %d handed snapshot %d after applied %d", nd.id, s.Metadata.Index, nd.applied))
	}
	if d, ok := c.chain[s.Metadata.Index]; ok {
		if !bytes.Equal(d[:], s.Data) {
			c.fail("C02", "snapshot-content-differs", fmt.Sprintf("replica %d handed snapshot at %d whose content is not the applied prefix", nd.id, s.Metadata.Index))
		}
	}
	nd.applied = s.Metadata.Index
	nd.conf = canonCS(s.Metadata.ConfState)
}

// shadowCheck: storage must contain a contiguous log whose accessors agree (RocksStorage caches).
func (c *Cluster) shadowCheck(nd *rnode) {
	fi, _ := nd.st.FirstIndex()
	li, _ := nd.st.LastIndex()
	if nd.eng != nil {
		// what a restart would see: a second RocksStorage view over the same engine recomputes
		// first/last index from the stored keys instead of the cached values
		fresh := raft.NewRocksStorage(nd.id, 1, true, nd.eng)
		ffi, _ := fresh.FirstIndex()
		fli, _ := fresh.LastIndex()
		if ffi != fi || fli != li {
			c.fail("C03", "storage-cache-differs-from-persisted", fmt.Sprintf("replica %d storage reports [%d,%d] but a reopened view of the same engine reports [%d,%d]", nd.id, fi, li, ffi, fli))
			return
		}
	}
	if li+1 < fi {
		c.fail("C03", "storage-index-inverted", fmt.Sprintf("replica %d storage first %d last %d", nd.id, fi, li))
		return
	}
	if fi > 1 {
		// the compaction point keeps the term of the entry that was there: raft reads it for the
		// log-matching check of the first append after it and, when nothing follows it, as lastTerm()
		// in the up-to-date check of a vote
		if id, ok := c.chosen[fi-1]; ok {
			t, err := nd.st.Term(fi - 1)
			if err != nil || t != id.Term {
				c.fail("C03", "storage-compaction-point-term", fmt.Sprintf("replica %d storage Term(%d)=%d,%v at its compaction point, the committed entry there has term %d", nd.id, fi-1, t, err, id.Term))
				return
			}
		}
	}
	if li >= fi {
		ents, err := nd.st.Entries(fi, li+1, 1<<30)
		if err != nil || uint64(len(ents)) != li-fi+1 {
			c.fail("C03", "storage-entries-not-contiguous", fmt.Sprintf("replica %d storage [%d,%d] returned %d entries err %v", nd.id, fi, li, len(ents), err))
			return
		}
		for i, e := range ents {
			if e.Index != fi+uint64(i) {
				c.fail("C03", "storage-entries-not-contiguous", fmt.Sprintf("replica %d storage entry %d has index %d", nd.id, fi+uint64(i), e.Index))
				return
			}
			if i > 0 && e.Term < ents[i-1].Term {
				c.fail("C03", "storage-terms-decrease", fmt.Sprintf("replica %d storage has term %d at %d after term %d", nd.id, e.Term, e.Index, ents[i-1].Term))
				return
			}
			t, err := nd.st.Term(e.Index)
			if err != nil || t != e.Term {
				c.fail("C03", "storage-term-mismatch", fmt.Sprintf("replica %d storage Term(%d)=%d,%v entry term %d", nd.id, e.Index, t, err, e.Term))
				return
			}
		}
	}
}

// ---- events ----------------------------------------------------------------------

func (c *Cluster) Apply(ev uint32) {
	kind, a, b, cm := unEv(ev)
	if c.Verbose {
		c.Trace = append(c.Trace, c.Describe(ev))
	}
	ctx := context.Background()
	switch kind {
	case EvTick:
		nd := c.nodes[a-1]
		c.used.tick++
		nd.n.Tick()
		c.crashBudget(cm)
		c.pump(nd, cm)
	case EvTimeout:
		nd := c.nodes[a-1]
		c.crashBudget(cm)
		et := 2
		if a-1 < len(c.cfg.ET) && c.cfg.ET[a-1] > 0 {
			et = c.cfg.ET[a-1]
		}
		before := raft.VerifNodeView(nd.n)
		netBefore := c.netSize()
		for i := 0; i < 2*et+2; i++ {
			nd.n.Tick()
			c.pump(nd, cm)
			if !nd.alive || len(c.bad) > 0 {
				break
			}
			v := raft.VerifNodeView(nd.n)
			if v.State != before.State || v.Term != before.Term || c.netSize() != netBefore {
				break
			}
		}
	case EvDeliver, EvDeliverDup:
		if kind == EvDeliverDup {
			c.used.dup++
		}
		m := c.take(a, kind == EvDeliverDup)
		nd := c.node(m.To)
		c.crashBudget(cm)
		if nd == nil || !nd.alive {
			return
		}
		nd.n.Step(ctx, m)
		c.pump(nd, cm)
		if m.Type == pb.MsgSnap && !c.cfg.EarlySnapReport {
			// transport reports the outcome of the out-of-band snapshot transfer to the sender
			if s := c.node(m.From); s != nil && s.alive {
				s.n.ReportSnapshot(m.To, groupOf(m.To), raft.SnapshotFinish)
				c.pump(s, CrashNone)
			}
		}
	case EvDrop:
		c.used.drop++
		c.take(a, false)
	case EvPropose:
		nd := c.nodes[a-1]
		c.used.prop++
		c.propSeq++
		payload := fmt.Sprintf("p%d", c.propSeq)
		if c.cfg.MixedSizes && c.propSeq%2 == 0 {
			payload += strings.Repeat("x", 200)
		}
		nd.n.Propose(ctx, []byte(payload))
		c.crashBudget(cm)
		c.pump(nd, cm)
	case EvConf:
		nd := c.nodes[a-1]
		c.used.conf++
		typ, target := b&3, uint64(b>>2)
		cc := pb.ConfChange{ReplicaID: target, NodeGroup: groupOf(target)}
		switch typ {
		case ConfAddVoter:
			cc.Type = pb.ConfChangeAddNode
		case ConfAddLearner:
			cc.Type = pb.ConfChangeAddLearnerNode
		case ConfRemove:
			cc.Type = pb.ConfChangeRemoveNode
		}
		nd.n.ProposeConfChange(ctx, cc)
		c.pump(nd, CrashNone)
	case EvCrash:
		c.used.crash++
		c.crash(c.nodes[a-1])
	case EvRestart:
		nd := c.nodes[a-1]
		c.restart(nd)
	case EvCompact:
		nd := c.nodes[a-1]
		c.used.compact++
		d := c.chain[nd.applied]
		if _, err := nd.st.CreateSnapshot(nd.applied, &nd.conf, d[:]); err != nil {
			panic(fmt.Sprintf("CreateSnapshot(%d): %v", nd.applied, err))
		}
		if err := nd.st.Compact(nd.applied); err != nil {
			panic(fmt.Sprintf("Compact(%d): %v", nd.applied, err))
		}
		c.shadowCheck(nd)
	case EvDeliverPair:
		c.used.pair++
		// a and b index the network before either message is taken (a: the snapshot, b: the other one)
		first := c.take(a, true)
		second := c.take(b, true)
		if a > b {
			c.take(a, false)
			c.take(b, false)
		} else {
			c.take(b, false)
			c.take(a, false)
		}
		nd := c.node(first.To)
		if nd == nil || !nd.alive {
			return
		}
		nd.n.Step(ctx, first)
		nd.n.Step(ctx, second)
		c.pump(nd, CrashNone)
	case EvUnreachable:
		nd := c.nodes[a-1]
		c.used.unreach++
		nd.n.ReportUnreachable(uint64(b), groupOf(uint64(b)))
		c.pump(nd, CrashNone)
	case EvTransfer:
		nd := c.nodes[a-1]
		c.used.transfer++
		nd.n.TransferLeadership(ctx, uint64(a), uint64(b))
		c.pump(nd, CrashNone)
	default:
		panic(fmt.Sprintf("bad event %x", ev))
	}
	// snapshots that left their sender during this event: the transport reports them as sent
	for n := 0; len(c.earlyReports) > 0 && n < 8; n++ {
		r := c.earlyReports[0]
		c.earlyReports = c.earlyReports[1:]
		if s := c.node(r[0]); s != nil && s.alive {
			s.n.ReportSnapshot(r[1], groupOf(r[1]), raft.SnapshotFinish)
			c.pump(s, CrashNone)
		}
	}
	c.earlyReports = nil
}

func (c *Cluster) crashBudget(cm int) {
	if cm != CrashNone {
		c.used.crash++
	}
}

func (c *Cluster) netSize() int {
	n := 0
	for _, m := range c.net {
		n += m.cnt
	}
	return n
}

func (c *Cluster) restart(nd *rnode) {
	defer func() {
		if r := recover(); r != nil {
			sig := "restart-panic"
			if snap, err := nd.st.Snapshot(); err == nil {
				if hs, _, err2 := nd.st.InitialState(); err2 == nil && hs.Commit < snap.Metadata.Index && strings.Contains(fmt.Sprint(r), "is out of range") {
					// the snapshot of a Ready was persisted, the hard state of the same Ready was not
					sig = "restart-panic|hard-state-older-than-snapshot"
				}
			}
			c.fail("C03", sig, fmt.Sprintf("replica %d cannot restart from its storage: %v", nd.id, r))
			c.crash(nd)
		}
	}()
	// production (node/raft.go startRaft/restartNode): no Config.Applied; application state
	// is rewound to the snapshot the storage holds, later entries are handed out again.
	snap, err := nd.st.Snapshot()
	if err != nil {
		panic(err)
	}
	// what replayWAL does before it hands the stored hard state to raft (the real function, through a shim)
	if hs, _, herr := nd.st.InitialState(); herr == nil {
		before := hs
		node.VerifReconcileHardState(&hs, &snap)
		if hs != before {
			nd.st.SetHardState(hs)
			c.Obs["restart-hard-state-reconciled-with-snapshot"]++
		}
	}
	nd.applied = snap.Metadata.Index
	nd.conf = canonCS(snap.Metadata.ConfState)
	nd.commitRecorded = 0
	nd.wasState = raft.StateFollower
	nd.n = raft.RestartNode(c.raftConfig(nd.id, nd.st))
	nd.alive = true
	c.Obs["restart"]++
	c.pump(nd, CrashNone)
}

func (c *Cluster) Enabled() []uint32 {
	var evs []uint32
	cf := c.cfg
	crashLeft := c.used.crash < cf.MaxCrash
	modes := []int{CrashNone}
	if crashLeft {
		modes = append(modes, cf.CrashModes...)
	}
	for _, nd := range c.nodes {
		if !nd.alive {
			continue
		}
		v := raft.VerifNodeView(nd.n)
		mt := cf.MaxTerm
		if mt == 0 {
			mt = 4
		}
		if v.Term >= mt && v.State != raft.StateLeader {
			continue
		}
		for _, cm := range modes {
			// a leader's tick (heartbeat, check-quorum) is always in the alphabet: the timeout
			// macro only exists for non-leaders
			if (cf.UseTick || (cf.UseTimeout && v.State == raft.StateLeader)) && (cf.MaxTick == 0 || c.used.tick < cf.MaxTick) {
				evs = append(evs, Ev(EvTick, int(nd.id), 0, cm))
			}
			if cf.UseTimeout && v.State != raft.StateLeader && len(v.Voters) > 0 {
				evs = append(evs, Ev(EvTimeout, int(nd.id), 0, cm))
			}
		}
	}
	for k, m := range c.net {
		d := c.node(m.m.To)
		if d == nil || !d.alive {
			continue
		}
		for _, cm := range modes {
			evs = append(evs, Ev(EvDeliver, k, 0, cm))
		}
		if c.used.dup < cf.MaxDup {
			evs = append(evs, Ev(EvDeliverDup, k, 0, 0))
		}
	}
	if c.used.drop < cf.MaxDrop {
		for k := range c.net {
			evs = append(evs, Ev(EvDrop, k, 0, 0))
		}
	}
	if c.used.pair < cf.MaxPair {
		for k, m := range c.net {
			if m.m.Type != pb.MsgSnap || k > 4000 {
				continue
			}
			if d := c.node(m.m.To); d == nil || !d.alive {
				continue
			}
			for j, o := range c.net {
				if j != k && j < 250 && o.m.To == m.m.To {
					evs = append(evs, Ev(EvDeliverPair, k, j, 0))
				}
			}
		}
	}
	for _, nd := range c.nodes {
		if !nd.alive {
			if !nd.removed {
				evs = append(evs, Ev(EvRestart, int(nd.id), 0, 0))
			}
			continue
		}
		v := raft.VerifNodeView(nd.n)
		if c.used.prop < cf.MaxProp && v.Lead != 0 {
			for _, cm := range modes {
				evs = append(evs, Ev(EvPropose, int(nd.id), 0, cm))
			}
		}
		if c.used.conf < cf.MaxConf && v.State == raft.StateLeader {
			for t := 1; t <= len(c.nodes); t++ {
				isV, isL := contains(v.Voters, uint64(t)), contains(v.Learners, uint64(t))
				if !isV && !c.nodes[t-1].learner {
					evs = append(evs, Ev(EvConf, int(nd.id), ConfAddVoter|t<<2, 0))
				}
				if isL && c.nodes[t-1].learner {
					evs = append(evs, Ev(EvConf, int(nd.id), ConfAddVoter|t<<2, 0)) // promote
				}
				if !isV && !isL && c.nodes[t-1].learner {
					evs = append(evs, Ev(EvConf, int(nd.id), ConfAddLearner|t<<2, 0))
				}
				// never remove the last voter: a group without voters is dead by definition
				// (and raft panics in maybeCommit with an empty voter set; noted in DESIGN.md)
				if isL || (isV && len(v.Voters) > 1) {
					evs = append(evs, Ev(EvConf, int(nd.id), ConfRemove|t<<2, 0))
				}
			}
		}
		if crashLeft {
			evs = append(evs, Ev(EvCrash, int(nd.id), 0, 0))
		}
		if c.used.compact < cf.MaxCompact {
			snap, _ := nd.st.Snapshot()
			if nd.applied > snap.Metadata.Index {
				evs = append(evs, Ev(EvCompact, int(nd.id), 0, 0))
			}
		}
		if c.used.transfer < cf.MaxTransfer && v.State == raft.StateLeader {
			for _, t := range v.Voters {
				if t != nd.id {
					evs = append(evs, Ev(EvTransfer, int(nd.id), int(t), 0))
				}
			}
		}
		if c.used.unreach < cf.MaxUnreach && v.State == raft.StateLeader {
			for _, t := range v.Voters {
				if t != nd.id {
					evs = append(evs, Ev(EvUnreachable, int(nd.id), int(t), 0))
				}
			}
		}
	}
	return evs
}

// canonCS sorts the group lists of a ConfState: raft fills them by map iteration and
// consumes them through a map keyed by replica id, so the order carries no meaning.
func canonCS(cs pb.ConfState) pb.ConfState {
	g := append([]*pb.Group(nil), cs.Groups...)
	sort.Slice(g, func(i, j int) bool { return g[i].RaftReplicaId < g[j].RaftReplicaId })
	cs.Groups = g
	l := append([]*pb.Group(nil), cs.LearnerGroups...)
	sort.Slice(l, func(i, j int) bool { return l[i].RaftReplicaId < l[j].RaftReplicaId })
	cs.LearnerGroups = l
	return cs
}

func contains(s []uint64, x uint64) bool {
	for _, y := range s {
		if y == x {
			return true
		}
	}
	return false
}

// ---- canonical state --------------------------------------------------------------

func (c *Cluster) Key() explore.Key {
	e := c.enc
	e.Reset()
	for _, nd := range c.nodes {
		e.U64(nd.id)
		fl := uint64(0)
		if nd.alive {
			fl |= 1
		}
		if nd.removed {
			fl |= 2
		}
		e.U64(fl)
		e.U64(nd.applied)
		e.Value(&nd.conf)
		// storage = the persisted image
		hs, cs, _ := nd.st.InitialState()
		cs = canonCS(cs)
		e.Value(&hs)
		e.Value(&cs)
		snap, _ := nd.st.Snapshot()
		e.U64(snap.Metadata.Index)
		e.U64(snap.Metadata.Term)
		fi, _ := nd.st.FirstIndex()
		li, _ := nd.st.LastIndex()
		e.U64(fi)
		e.U64(li)
		if li >= fi {
			ents, _ := nd.st.Entries(fi, li+1, 1<<30)
			for _, en := range ents {
				e.U64(en.Index)
				e.U64(en.Term)
				e.U64(uint64(en.Type))
				e.Raw(en.Data)
			}
		}
		if nd.alive {
			e.Value(raft.VerifRaft(nd.n))
			for _, m := range raft.VerifPendingProposals(nd.n) {
				b, _ := m.Marshal()
				e.Raw(b)
			}
			if raft.VerifPendingMsgs(nd.n) != 0 {
				panic("message queue not drained at macro-step boundary")
			}
		}
	}
	if len(e.ChanNonEmpty) > 0 {
		panic(fmt.Sprintf("channel not empty at macro-step boundary: %v", e.ChanNonEmpty))
	}
	e.Tag("net")
	for _, m := range c.net {
		e.Raw(m.key)
		e.U64(uint64(m.cnt))
	}
	e.Tag("budget")
	u := c.used
	for _, x := range []int{u.dup, u.drop, u.crash, u.prop, u.conf, u.compact, u.transfer, u.unreach, u.pair, c.propSeq} {
		e.U64(uint64(x))
	}
	if c.cfg.MaxTick > 0 {
		e.U64(uint64(u.tick))
	}
	e.Tag("hist")
	e.U64(c.promoted)
	terms := make([]uint64, 0, len(c.leaderOf))
	for t := range c.leaderOf {
		terms = append(terms, t)
	}
	sort.Slice(terms, func(i, j int) bool { return terms[i] < terms[j] })
	for _, t := range terms {
		e.U64(t)
		e.U64(c.leaderOf[t])
	}
	idxs := make([]uint64, 0, len(c.chosen))
	for i := range c.chosen {
		idxs = append(idxs, i)
	}
	sort.Slice(idxs, func(i, j int) bool { return idxs[i] < idxs[j] })
	for _, i := range idxs {
		x := c.chosen[i]
		e.U64(i)
		e.U64(x.Term)
		e.U64(uint64(x.Typ))
		e.Raw(x.Sum[:])
		e.U64(c.chosenAt[i])
	}
	return explore.Key(md5.Sum(e.Bytes()))
}

// ---- pretty printing ---------------------------------------------------------------

func (c *Cluster) Describe(ev uint32) string {
	kind, a, b, cm := unEv(ev)
	s := kindNames[kind]
	switch kind {
	case EvDeliver, EvDeliverDup, EvDrop:
		if a < len(c.net) {
			m := c.net[a].m
			s += fmt.Sprintf(" %v %d->%d term=%d logterm=%d index=%d commit=%d ents=%d reject=%v", m.Type, m.From, m.To, m.Term, m.LogTerm, m.Index, m.Commit, len(m.Entries), m.Reject)
		} else {
			s += fmt.Sprintf(" #%d(out of range)", a)
		}
	case EvConf:
		s += fmt.Sprintf(" at %d %s target %d", a, []string{"add-voter", "add-learner", "remove", "?"}[b&3], b>>2)
	case EvTransfer, EvUnreachable:
		s += fmt.Sprintf(" %d->%d", a, b)
	case EvDeliverPair:
		s += fmt.Sprintf(" #%d then #%d", a, b)
	default:
		s += fmt.Sprintf(" %d", a)
	}
	if cm != 0 {
		s += []string{"", " +crash(persisted,not sent)", " +crash(entries without hard state)", " +crash(new leader sent, nothing persisted)"}[cm]
	}
	return s
}

func (c *Cluster) Summary() string {
	var sb bytes.Buffer
	for _, nd := range c.nodes {
		if !nd.alive {
			fmt.Fprintf(&sb, "[%d dead removed=%v] ", nd.id, nd.removed)
			continue
		}
		v := raft.VerifNodeView(nd.n)
		fmt.Fprintf(&sb, "[%d %v t%d v%d lead%d c%d a%d log%d-%d L=%v] ", v.ID, v.State, v.Term, v.Vote, v.Lead, v.Committed, nd.applied, v.FirstIndex, v.LastIndex, v.IsLearner)
	}
	fmt.Fprintf(&sb, "net=%d", c.netSize())
	return sb.String()
}
