#!/bin/bash
# mutall.sh [tier] [id-regex] : the calibration matrix: every mutations/<ID>-*.diff against check <ID> (quick by default).
# Writes mutations/RESULTS.part-<pid>.tsv (mutation, property, exit code, first signature); /repo is never touched (overlay).
# Several streams can run side by side; merge with: cat mutations/RESULTS.part-*.tsv | sort > mutations/RESULTS.tsv
TIER=${1:-quick}; RE=${2:-.}
OUT=/verif/mutations/RESULTS.part-$$.tsv
: > $OUT
for m in /verif/mutations/C*.diff; do
  b=$(basename $m .diff); ID=${b%%-*}
  echo "$ID" | grep -Eq "$RE" || continue
  r=$(/verif/tools/mutate.sh $m $ID $TIER 2>&1)
  rc=$(echo "$r" | grep -o "^exit=[0-9]*" | cut -d= -f2)
  sig=$(echo "$r" | grep -m1 "signature:" | sed 's/^ *signature: //' | cut -c1-100)
  printf "%s\t%s\t%s\t%s\n" "$b" "$ID" "$rc" "$sig" >> $OUT
done
touch $OUT.done
