package raftmc

import (
	"fmt"
	"sync"
	"time"

	"github.com/youzan/ZanRedisDB/raft"
	pb "github.com/youzan/ZanRedisDB/raft/raftpb"
	"zmc/ev"
	"zmc/explore"
)

type sysAdapter struct{ *Cluster }

func (s sysAdapter) Bad() []explore.Bad { return s.Cluster.Bad() }

// Seed builds a non-initial start state by a scripted default schedule and returns the
// event prefix that reaches it (so seeds are ordinary replayable paths).
func Seed(cfg *Config, name string) []uint32 {
	c := New(cfg)
	defer c.Close()
	var path []uint32
	// a seed prefix is an ordinary path: if an oracle already fails on it the script stops
	// there and the search reports it from its root state
	do := func(e uint32) {
		if len(c.bad) > 0 {
			return
		}
		c.Apply(e)
		path = append(path, e)
	}
	deliverAll := func(skipTo uint64) {
		for i := 0; i < 200; i++ {
			k := -1
			for j, m := range c.net {
				if m.m.To != skipTo {
					if d := c.node(m.m.To); d != nil && d.alive {
						k = j
						break
					}
				}
			}
			if k < 0 || len(c.bad) > 0 {
				return
			}
			do(Ev(EvDeliver, k, 0, 0))
		}
	}
	switch name {
	case "fresh":
	case "leader", "leader2", "lagging", "lagging-compacted", "conf-inflight", "learner-added":
		do(Ev(EvTimeout, 1, 0, 0))
		deliverAll(0)
		lag := uint64(0)
		if name == "lagging" || name == "lagging-compacted" {
			lag = uint64(cfg.N)
		}
		if name != "leader" && name != "conf-inflight" && name != "learner-added" {
			do(Ev(EvPropose, 1, 0, 0))
			deliverAll(lag)
			do(Ev(EvPropose, 1, 0, 0))
			deliverAll(lag)
		}
		if name == "lagging-compacted" {
			do(Ev(EvCompact, 1, 0, 0))
			// the messages held back for the lagging replica are lost
			for {
				k := -1
				for j, m := range c.net {
					if m.m.To == lag {
						k = j
						break
					}
				}
				if k < 0 || len(c.bad) > 0 {
					break
				}
				do(Ev(EvDrop, k, 0, 0))
			}
		}
		if name == "conf-inflight" {
			t := cfg.N + 1
			if cfg.Spare == "learner" {
				do(Ev(EvConf, 1, ConfAddLearner|t<<2, 0))
			} else {
				do(Ev(EvConf, 1, ConfAddVoter|t<<2, 0))
			}
		}
		if name == "learner-added" {
			t := cfg.N + 1
			do(Ev(EvConf, 1, ConfAddLearner|t<<2, 0))
			deliverAll(0)
			do(Ev(EvTick, 1, 0, 0))
			deliverAll(0)
		}
	case "snap+append-in-flight":
		// a lagging replica whose leader compacted: the snapshot message has left the leader and was reported
		// as sent (needs EarlySnapReport), one heartbeat round later the leader probes with an append that
		// follows the snapshot: both are in flight to the lagging replica
		deliverOne := func(pred func(m pb.Message) bool) {
			for j, m := range c.net {
				if pred(m.m) {
					do(Ev(EvDeliver, j, 0, 0))
					return
				}
			}
		}
		lagID := uint64(cfg.N)
		do(Ev(EvTimeout, 1, 0, 0))
		deliverAll(0)
		do(Ev(EvPropose, 1, 0, 0))
		deliverAll(lagID)
		do(Ev(EvPropose, 1, 0, 0))
		deliverAll(lagID)
		do(Ev(EvCompact, 1, 0, 0))
		for {
			k := -1
			for j, m := range c.net {
				if m.m.To == lagID {
					k = j
					break
				}
			}
			if k < 0 || len(c.bad) > 0 {
				break
			}
			do(Ev(EvDrop, k, 0, 0))
		}
		do(Ev(EvPropose, 1, 0, 0))
		deliverAll(lagID) // the new entry is committed with the other follower: the append that follows the snapshot carries a commit index beyond it
		has := func(pred func(m pb.Message) bool) bool {
			for _, m := range c.net {
				if pred(m.m) {
					return true
				}
			}
			return false
		}
		isSnap := func(m pb.Message) bool { return m.To == lagID && m.Type == pb.MsgSnap }
		// the appends built on the optimistic next index are rejected until the leader falls back to a snapshot
		for round := 0; round < 6 && !has(isSnap); round++ {
			deliverOne(func(m pb.Message) bool { return m.To == lagID && m.Type == pb.MsgApp })
			deliverOne(func(m pb.Message) bool { return m.From == lagID && m.Type == pb.MsgAppResp })
		}
		// the snapshot was reported as sent: after a heartbeat round the leader probes with the append that follows it
		for round := 0; round < 4 && has(isSnap) && !has(func(m pb.Message) bool { return m.To == lagID && m.Type == pb.MsgApp && len(m.Entries) > 0 }); round++ {
			do(Ev(EvTick, 1, 0, 0))
			deliverOne(func(m pb.Message) bool { return m.To == lagID && m.Type == pb.MsgHeartbeat })
			deliverOne(func(m pb.Message) bool { return m.From == lagID && m.Type == pb.MsgHeartbeatResp })
		}
	case "two-precandidates":
		// replicas 1 and 2 ran into their election timeouts at the same moment: both are pre-candidates
		// (or candidates when pre-vote is off) with their requests to everybody still in flight
		do(Ev(EvTimeout, 1, 0, 0))
		do(Ev(EvTimeout, 2, 0, 0))
	case "stepped-down-novote", "voted-then-restarted":
		// replica 1 was leader of term T, replicas 2 and 3 both became candidates of term T+1 on their own
		// timeouts; the old leader learnt T+1 from the reply to a heartbeat (check-quorum makes a
		// candidate answer a stale heartbeat), so it is a follower of T+1 that has not voted yet, with
		// both vote requests still in flight: the next vote it grants changes nothing but Vote.
		deliverOne := func(pred func(m pb.Message) bool) {
			for j, m := range c.net {
				if pred(m.m) {
					do(Ev(EvDeliver, j, 0, 0))
					return
				}
			}
		}
		do(Ev(EvTimeout, 1, 0, 0))
		deliverAll(0)
		do(Ev(EvTimeout, 2, 0, 0))
		do(Ev(EvTimeout, 3, 0, 0))
		do(Ev(EvTick, 1, 0, 0))
		deliverOne(func(m pb.Message) bool { return m.From == 1 && m.To == 2 && m.Type == pb.MsgHeartbeat })
		deliverOne(func(m pb.Message) bool { return m.From == 2 && m.To == 1 && m.Type == pb.MsgAppResp })
		if name == "voted-then-restarted" {
			// ... it then grants its vote to replica 2, crashes at rest and restarts from what it persisted,
			// with the answer to 2 and the request of the second candidate 3 still in flight
			deliverOne(func(m pb.Message) bool { return m.From == 2 && m.To == 1 && m.Type == pb.MsgVote })
			do(Ev(EvCrash, 1, 0, 0))
			do(Ev(EvRestart, 1, 0, 0))
		}
	case "divergent", "stale-long":
		// replica 1: old leader with an uncommitted entry; replica 2: leader of the next term
		// with a different uncommitted entry at the same index; replica 3 has neither.
		// (needs PreVote/CheckQuorum off, as the elections are driven by plain timeouts)
		dropTo := func(pred func(m pb.Message) bool) {
			for {
				k := -1
				for j, m := range c.net {
					if pred(m.m) {
						k = j
						break
					}
				}
				if k < 0 || len(c.bad) > 0 {
					return
				}
				do(Ev(EvDrop, k, 0, 0))
			}
		}
		do(Ev(EvTimeout, 1, 0, 0))
		deliverAll(0)
		do(Ev(EvPropose, 1, 0, 0))
		if name == "stale-long" {
			// the old leader has two uncommitted entries: a longer log with an older term
			do(Ev(EvPropose, 1, 0, 0))
		}
		dropTo(func(m pb.Message) bool { return m.From == 1 })
		do(Ev(EvTimeout, 2, 0, 0))
		for i := 0; i < 20; i++ {
			k := -1
			for j, m := range c.net {
				if (m.m.Type == pb.MsgVote || m.m.Type == pb.MsgVoteResp) && (m.m.To == 3 || m.m.To == 2 || m.m.To == 1) {
					k = j
					break
				}
			}
			if k < 0 || len(c.bad) > 0 {
				break
			}
			do(Ev(EvDeliver, k, 0, 0))
		}
		dropTo(func(m pb.Message) bool { return true })
		if name == "stale-long" {
			// the new leader replicates and commits its entry on replica 3 (one heartbeat
			// round trip makes it resend the append that was lost)
			do(Ev(EvTick, 2, 0, 0))
			for i := 0; i < 30; i++ {
				k := -1
				for j, m := range c.net {
					if (m.m.From == 2 && m.m.To == 3) || (m.m.From == 3 && m.m.To == 2) {
						k = j
						break
					}
				}
				if k < 0 || len(c.bad) > 0 {
					break
				}
				do(Ev(EvDeliver, k, 0, 0))
			}
			dropTo(func(m pb.Message) bool { return true })
		}
	default:
		panic("unknown seed " + name)
	}
	// seeds must not consume the search budgets
	return path
}

type Search struct {
	Cfg   Config
	Seed  string
	Depth int
}

func (s Search) Label() string {
	c := s.Cfg
	return fmt.Sprintf("%s n=%d spare=%q prevote=%v checkquorum=%v storage=%s et=%v seed=%s depth=%d budgets(dup=%d drop=%d crash=%d%v prop=%d conf=%d compact=%d transfer=%d)",
		c.Name, c.N, c.Spare, c.PreVote, c.CheckQuorum, c.Storage, c.ET, s.Seed, s.Depth, c.MaxDup, c.MaxDrop, c.MaxCrash, c.CrashModes, c.MaxProp, c.MaxConf, c.MaxCompact, c.MaxTransfer)
}

type Result struct {
	Label string
	explore.Stats
	Obs     map[string]int
	WallS   float64
	Samples []interface{}
}

// RunSearch runs one BFS; prop filters which oracle's failures are reported.
func RunSearch(s Search, prop string, workers int, deadline time.Time, col *ev.Collector) (Result, error) {
	cfg := s.Cfg
	cfg.Deciding = prop
	prefix := Seed(&cfg, s.Seed)
	// budgets are counted from the seed state on: measure what the prefix used
	base := New(&cfg)
	for _, e := range prefix {
		base.Apply(e)
	}
	used := base.used
	base.Close()
	cfg.MaxDup += used.dup
	cfg.MaxDrop += used.drop
	cfg.MaxCrash += used.crash
	cfg.MaxProp += used.prop
	cfg.MaxConf += used.conf
	cfg.MaxCompact += used.compact
	cfg.MaxTransfer += used.transfer
	cfg.MaxUnreach += used.unreach
	cfg.MaxPair += used.pair
	if cfg.MaxTick > 0 {
		cfg.MaxTick += used.tick
	}
	obs := map[string]int{}
	t0 := time.Now()
	var omu sync.Mutex
	st, err := explore.BFS(func() explore.Sys { return sysAdapter{New(&cfg)} }, explore.Options{
		MaxDepth: s.Depth, Workers: workers, Deadline: deadline, Prefix: prefix,
		OnState: func(sy explore.Sys, depth int) {
			c := sy.(sysAdapter).Cluster
			omu.Lock()
			for k, v := range c.Obs {
				if v > 0 {
					obs["states-whose-path-had:"+k]++
				}
			}
			if len(c.leaderOf) > 1 {
				obs["states-with-leaders-in-2+-terms"]++
			}
			nl := 0
			for _, nd := range c.nodes {
				if nd.alive && nd.wasState == raft.StateLeader {
					nl++
				}
			}
			if nl > 1 {
				obs["states-with-2-simultaneous-leaders(different terms)"]++
			}
			omu.Unlock()
		},
	})
	res := Result{Label: s.Label(), Stats: st, Obs: obs, WallS: time.Since(t0).Seconds()}
	if err != nil {
		return res, err
	}
	for _, f := range st.Found {
		v := ev.Violation{Property: f.Property, Signature: f.Signature, What: f.What + " | " + s.Label(),
			Replay: Replay{Cfg: cfg, Path: f.Path, Trace: Explain(&cfg, f.Path)}}
		if f.Property == prop {
			col.Add(v)
		} else {
			col.Outcome("other-property-violation:" + f.Property + ":" + f.Signature)
		}
	}
	return res, nil
}

type Replay struct {
	Cfg   Config
	Path  []uint32
	Trace []string
}

// Explain re-executes a path and returns a readable trace.
func Explain(cfg *Config, path []uint32) []string {
	c := New(cfg)
	defer c.Close()
	var out []string
	for _, e := range path {
		d := c.Describe(e)
		c.Apply(e)
		out = append(out, fmt.Sprintf("%-70s => %s", d, c.Summary()))
		if len(c.bad) > 0 {
			break
		}
	}
	for _, b := range c.bad {
		out = append(out, "VIOLATION "+b.Property+" "+b.Signature+": "+b.What)
	}
	return out
}

// RunReplay executes a recorded path without the explorer; returns failures.
func RunReplay(r Replay) []explore.Bad {
	c := New(&r.Cfg)
	defer c.Close()
	for _, e := range r.Path {
		c.Apply(e)
		if len(c.bad) > 0 {
			break
		}
	}
	return c.bad
}

// Walk executes a path and returns observation counters (for vacuity statistics).
func Walk(cfg *Config, path []uint32) map[string]int {
	c := New(cfg)
	defer c.Close()
	for _, e := range path {
		c.Apply(e)
	}
	return c.Obs
}

var _ = pb.MsgApp
