//go:build verif

// Injected by /verif (go build -overlay); never part of the repository.
package node

import (
	"github.com/youzan/ZanRedisDB/common"
	"github.com/youzan/ZanRedisDB/rockredis"
)

// VerifRockDB exposes the store behind a state machine (nil for non-kv state machines).
func VerifRockDB(sm StateMachine) *rockredis.RockDB {
	if k, ok := sm.(*kvStoreSM); ok && k.store != nil {
		return k.store.RockDB
	}
	return nil
}

// VerifNewReadNode builds a KVNode shell around an existing state machine so that the
// registered *read* handlers (node/*.go) can be called without raft. Write handlers of
// this shell must not be used (they would propose to a raft node that does not exist).
func VerifNewReadNode(sm StateMachine, ns string, policy common.ExpirationPolicy) *KVNode {
	kvsm := sm.(*kvStoreSM)
	nd := &KVNode{
		store:              kvsm.store,
		sm:                 sm,
		router:             common.NewCmdRouter(),
		ns:                 ns,
		machineConfig:      &MachineConfig{},
		expirationPolicy:   policy,
		remoteSyncedStates: newRemoteSyncedStateMgr(),
		stopChan:           make(chan struct{}),
	}
	nd.registerHandler()
	return nd
}

func (nd *KVNode) VerifReadHandler(name string) (common.CommandFunc, bool) {
	return nd.router.GetCmdHandler(name)
}

func (nd *KVNode) VerifMergeHandler(name string) (common.MergeCommandFunc, bool, bool) {
	return nd.router.GetMergeCmdHandler(name)
}
