#!/bin/bash
# mutall.sh [tier] : the whole calibration matrix: every mutations/<ID>-*.diff against check <ID> (quick by default).
# Writes mutations/RESULTS.tsv (mutation, property, exit code, first signature). /repo is never touched (overlay).
TIER=${1:-quick}
OUT=/verif/mutations/RESULTS.tsv
: > $OUT.tmp
for m in /verif/mutations/C*.diff; do
  b=$(basename $m .diff); ID=${b%%-*}
  r=$(/verif/tools/mutate.sh $m $ID $TIER 2>&1)
  rc=$(echo "$r" | grep -o "^exit=[0-9]*" | cut -d= -f2)
  sig=$(echo "$r" | grep -m1 "signature:" | sed 's/^ *signature: //' | cut -c1-100)
  printf "%s\t%s\t%s\t%s\n" "$b" "$ID" "$rc" "$sig" >> $OUT.tmp
done
mv $OUT.tmp $OUT
