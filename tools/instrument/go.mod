module instrument

go 1.23
