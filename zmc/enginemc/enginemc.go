// Package enginemc: C20 — every storage engine against a sorted-map reference.
// Part A: on every presence pattern of an adversarial key universe, every iterator option
// combination. Part B: explicit-state BFS over store contents with write batches
// (put/delete/delete-range/merge, Clear, uncommitted invisibility) as transitions.
package enginemc

import (
	"bytes"
	"encoding/binary"
	"fmt"
	"os"
	"sort"
	"strings"

	"github.com/youzan/ZanRedisDB/common"
	"github.com/youzan/ZanRedisDB/engine"
	"zmc/ev"
)

type EngSpec struct {
	Name    string // mem-skiplist, mem-radix, mem-btree, pebble, rocksdb
	Type    string
	MemType int
}

var Engines = map[string]EngSpec{
	"mem-skiplist": {"mem-skiplist", "mem", 0},
	"mem-radix":    {"mem-radix", "mem", 1},
	"mem-btree":    {"mem-btree", "mem", 2},
	"pebble":       {"pebble", "pebble", 0},
	"rocksdb":      {"rocksdb", "rocksdb", 0},
}

var seq int

func Open(spec EngSpec) (engine.KVEngine, string) {
	seq++
	dir := fmt.Sprintf("/dev/shm/zrverif/eng-%d/%s-%d", os.Getpid(), spec.Name, seq)
	os.MkdirAll(dir, 0o755)
	cfg := engine.NewRockConfig()
	cfg.DataDir = dir
	cfg.EngineType = spec.Type
	cfg.EnableTableCounter = true
	cfg.RockOptions.BlockCache = 8 << 20
	cfg.RockOptions.WriteBufferSize = 4 << 20
	// durability of the engine's own WAL is not part of the contract under test (tmpfs anyway)
	cfg.DisableWAL = true
	if spec.Type == "mem" {
		engine.VerifSetMemType(spec.MemType)
	}
	if spec.Type == "rocksdb" {
		sc, err := engine.NewSharedEngConfig(cfg.RockOptions)
		if err != nil {
			panic(err)
		}
		cfg.SharedConfig = sc
	}
	eng, err := engine.NewKVEng(cfg)
	if err != nil {
		panic(err)
	}
	if err := eng.OpenEng(); err != nil {
		panic(err)
	}
	return eng, dir
}

func CloseEng(eng engine.KVEngine, dir string) {
	eng.CloseAll()
	os.RemoveAll(dir)
}

// P is the 3-byte prefix all universe keys share (rocksdb uses a 3-byte fixed prefix extractor).
var P = []byte{21, 0, 1}

func K(s string) []byte { return append(append([]byte{}, P...), s...) }

var Universe = [][]byte{K(""), K("\x00"), K("a"), K("a\x00"), K("ab"), K("b"), K("\xff"), K("\xff\xff")}

// decoys just outside the prefix, always present, never touched by any op in the alphabet
var Decoys = [][]byte{{21, 0, 0, 0xff}, {21, 0, 2}, {21, 0, 2, 'a'}}

type Ref map[string][]byte

func (r Ref) sorted() []string {
	ks := make([]string, 0, len(r))
	for k := range r {
		ks = append(ks, k)
	}
	sort.Strings(ks)
	return ks
}

func (r Ref) clone() Ref {
	n := Ref{}
	for k, v := range r {
		n[k] = v
	}
	return n
}

func (r Ref) String() string {
	var sb strings.Builder
	for _, k := range r.sorted() {
		fmt.Fprintf(&sb, "%q=%q ", k, r[k])
	}
	return sb.String()
}

// dump reads the whole engine through an unbounded forward iterator.
func Dump(eng engine.KVEngine) Ref {
	it, err := eng.GetIterator(engine.IteratorOpts{})
	if err != nil {
		panic(err)
	}
	defer it.Close()
	out := Ref{}
	for it.SeekToFirst(); it.Valid(); it.Next() {
		out[string(it.Key())] = append([]byte{}, it.Value()...)
	}
	return out
}

// load makes the engine contain exactly ref (delete what is extra, put the rest).
func Load(eng engine.KVEngine, ref Ref) {
	cur := Dump(eng)
	wb := eng.NewWriteBatch()
	for k := range cur {
		if _, ok := ref[k]; !ok {
			wb.Delete([]byte(k))
		}
	}
	for k, v := range ref {
		if c, ok := cur[k]; !ok || !bytes.Equal(c, v) {
			wb.Put([]byte(k), v)
		}
	}
	if err := wb.Commit(); err != nil {
		panic(err)
	}
	wb.Destroy()
}

type IterCase struct {
	Min, Max []byte
	Type     uint8
	Reverse  bool
	Offset   int
	Count    int
	Snap     bool
}

func (c IterCase) String() string {
	return fmt.Sprintf("min=%q max=%q type=%#x reverse=%v offset=%d count=%d snap=%v", c.Min, c.Max, c.Type, c.Reverse, c.Offset, c.Count, c.Snap)
}

// refIter: the sorted-map meaning of a range-limited iterator.
func refIter(r Ref, c IterCase) []string {
	var ks []string
	for _, k := range r.sorted() {
		kb := []byte(k)
		if c.Min != nil {
			cmp := bytes.Compare(kb, c.Min)
			if cmp < 0 || (cmp == 0 && c.Type&common.RangeLOpen > 0) {
				continue
			}
		}
		if c.Max != nil {
			cmp := bytes.Compare(kb, c.Max)
			if cmp > 0 || (cmp == 0 && c.Type&common.RangeROpen > 0) {
				continue
			}
		}
		ks = append(ks, k)
	}
	if c.Reverse {
		for i, j := 0, len(ks)-1; i < j; i, j = i+1, j-1 {
			ks[i], ks[j] = ks[j], ks[i]
		}
	}
	if c.Offset < 0 {
		return nil
	}
	if c.Offset >= len(ks) {
		return nil
	}
	ks = ks[c.Offset:]
	if c.Count >= 0 && c.Count < len(ks) {
		ks = ks[:c.Count]
	}
	return ks
}

func runIter(eng engine.KVEngine, c IterCase) (keys []string, vals [][]byte, err error) {
	defer func() {
		if r := recover(); r != nil {
			err = fmt.Errorf("panic: %v", r)
		}
	}()
	opts := engine.IteratorOpts{Range: engine.Range{Min: c.Min, Max: c.Max, Type: c.Type}, Limit: engine.Limit{Offset: c.Offset, Count: c.Count}, Reverse: c.Reverse, WithSnap: c.Snap}
	it, e := engine.NewDBRangeLimitIteratorWithOpts(eng, opts)
	if e != nil {
		return nil, nil, e
	}
	defer it.Close()
	for n := 0; it.Valid(); it.Next() {
		keys = append(keys, string(it.Key()))
		vals = append(vals, append([]byte{}, it.Value()...))
		if n++; n > 64 {
			return keys, vals, fmt.Errorf("iterator does not terminate")
		}
	}
	return keys, vals, nil
}

func classify(spec EngSpec, c IterCase, got, want []string) string {
	dir := "forward"
	if c.Reverse {
		dir = "reverse"
	}
	bt := map[uint8]string{0: "closed", 1: "lopen", 0x10: "ropen", 0x11: "open"}[c.Type]
	kind := "other"
	switch {
	case len(got) < len(want):
		kind = "missing-elements"
	case len(got) > len(want):
		kind = "extra-elements"
	default:
		kind = "wrong-elements"
	}
	mx, mn := "max", "min"
	if c.Max == nil {
		mx = "nomax"
	}
	if c.Min == nil {
		mn = "nomin"
	}
	return fmt.Sprintf("%s|iter|%s|%s|%s|%s|%s", spec.Name, dir, bt, mn+"+"+mx, kind, limitClass(c))
}

func limitClass(c IterCase) string {
	if c.Offset == 0 && c.Count < 0 {
		return "nolimit"
	}
	return "limit"
}

type Stats struct {
	IterCases, IterStates, BatchStates, BatchTransitions, PointReads int
	Mismatch                                                         int
}

// PartA: every presence pattern × every option combination.
func PartA(spec EngSpec, col *ev.Collector, withinPrefixOnly bool, reduced bool, dl ev.Deadline) (st Stats, complete bool) {
	eng, dir := Open(spec)
	defer CloseEng(eng, dir)
	base := Ref{}
	for _, d := range Decoys {
		base[string(d)] = []byte("decoy")
	}
	bounds := append([][]byte{nil}, Universe...)
	// also bounds that are not keys themselves: just below / above the whole universe
	if !withinPrefixOnly {
		bounds = append(bounds, []byte{21, 0, 0}, []byte{21, 0, 3})
	} else {
		bounds = bounds[1:]
	}
	types := []uint8{common.RangeClose, common.RangeLOpen, common.RangeROpen, common.RangeOpen}
	offsets := []int{0, 1, 2}
	counts := []int{-1, 0, 1, 2}
	if reduced {
		offsets = []int{0, 1}
		counts = []int{-1, 0, 1} // 0: a limit of zero elements is a limit, not "no limit"
	}
	n := len(Universe)
	for mask := 0; mask < 1<<n; mask++ {
		if reduced && bitsSet(mask) > 3 && mask != 1<<n-1 {
			continue // quick tier: all patterns with ≤3 keys plus the full universe
		}
		if dl.Hit() {
			return st, false
		}
		ref := base.clone()
		for i, k := range Universe {
			if mask&(1<<i) != 0 {
				ref[string(k)] = []byte(fmt.Sprintf("v%d", i))
			}
		}
		Load(eng, ref)
		st.IterStates++
		// point reads on every key
		for _, k := range Universe {
			st.PointReads++
			v, err := eng.GetBytes(k)
			ex, err2 := eng.Exist(k)
			want, has := ref[string(k)]
			if err != nil || err2 != nil || ex != has || (has && !bytes.Equal(v, want)) || (!has && v != nil) {
				col.Add(ev.Violation{Property: "C20", Signature: spec.Name + "|point-read", What: fmt.Sprintf("%s: get/exist of %q on state {%s}: got %q,%v,%v,%v", spec.Name, k, ref, v, ex, err, err2),
					Replay: map[string]interface{}{"engine": spec.Name, "state": refJSON(ref), "key": k}})
			}
		}
		for _, mn := range bounds {
			for _, mx := range bounds {
				for _, ty := range types {
					for _, rev := range []bool{false, true} {
						for _, off := range offsets {
							for _, cnt := range counts {
								c := IterCase{Min: mn, Max: mx, Type: ty, Reverse: rev, Offset: off, Count: cnt}
								st.IterCases++
								want := refIter(ref, c)
								got, vals, err := runIter(eng, c)
								ok := err == nil && len(got) == len(want)
								if ok {
									for i := range got {
										if got[i] != want[i] || !bytes.Equal(vals[i], ref[got[i]]) {
											ok = false
										}
									}
								}
								if !ok {
									st.Mismatch++
									sig := classify(spec, c, got, want)
									if err != nil {
										sig = spec.Name + "|iter|error"
									}
									col.Add(ev.Violation{Property: "C20", Signature: sig,
										What:   fmt.Sprintf("%s iterator {%s} over keys %q returned %q (err %v), sorted-map reference says %q", spec.Name, c, ref.sorted(), got, err, want),
										Replay: map[string]interface{}{"kind": "iter", "engine": spec.Name, "state": refJSON(ref), "case": c}})
								}
							}
						}
					}
				}
			}
		}
	}
	return st, true
}

func bitsSet(m int) int {
	n := 0
	for ; m != 0; m &= m - 1 {
		n++
	}
	return n
}

func refJSON(r Ref) map[string]string {
	o := map[string]string{}
	for k, v := range r {
		o[fmt.Sprintf("%x", k)] = fmt.Sprintf("%x", v)
	}
	return o
}

// ---- Part B: batches -------------------------------------------------------------

type Op struct {
	Kind string // put del delrange merge
	K    []byte
	V    []byte // value, range end, merge operand
}

func (o Op) String() string { return fmt.Sprintf("%s(%q,%q)", o.Kind, o.K, o.V) }

func u64(x uint64) []byte {
	b := make([]byte, 8)
	binary.LittleEndian.PutUint64(b, x)
	return b
}

var BKeys = [][]byte{K(""), K("a"), K("a\x00"), K("\xff")}
var CounterKey = K("cnt")

// AlphabetFor: rocksdb refuses a delete-range whose end sorts before its start (InvalidArgument) and,
// the failed write having reached the memtable stage, refuses every later write of that DB object too;
// the callers of the engine never build such a range (rockredis derives both ends from one key), so for
// rocksdb the inverted ranges are left out of the alphabet (observation recorded in DESIGN.md C20).
func AlphabetFor(spec EngSpec) []Op {
	all := Alphabet()
	if spec.Name != "rocksdb" {
		return all
	}
	var out []Op
	for _, o := range all {
		if o.Kind == "delrange" && bytes.Compare(o.K, o.V) > 0 {
			continue
		}
		out = append(out, o)
	}
	return out
}

func Alphabet() []Op {
	var ops []Op
	for _, k := range BKeys {
		ops = append(ops, Op{"put", k, []byte("v1")}, Op{"put", k, []byte("v2")}, Op{"del", k, nil})
	}
	rb := append(append([][]byte{}, BKeys...), K("\xff\xff"))
	for _, a := range rb {
		for _, b := range rb {
			ops = append(ops, Op{"delrange", a, b})
		}
	}
	ops = append(ops, Op{"merge", CounterKey, u64(1)}, Op{"merge", CounterKey, u64(1 << 63)}, Op{"del", CounterKey, nil})
	return ops
}

// applyRef returns false when the reference is silent (merge on a non-8-byte value).
func applyRef(r Ref, o Op) bool {
	switch o.Kind {
	case "put":
		r[string(o.K)] = o.V
	case "del":
		delete(r, string(o.K))
	case "delrange":
		for k := range r {
			if bytes.Compare([]byte(k), o.K) >= 0 && bytes.Compare([]byte(k), o.V) < 0 {
				delete(r, k)
			}
		}
	case "merge":
		cur := uint64(0)
		if v, ok := r[string(o.K)]; ok {
			if len(v) != 8 {
				return false
			}
			cur = binary.LittleEndian.Uint64(v)
		}
		r[string(o.K)] = u64(cur + binary.LittleEndian.Uint64(o.V))
	}
	return true
}

func addOp(wb engine.WriteBatch, o Op) {
	switch o.Kind {
	case "put":
		wb.Put(o.K, o.V)
	case "del":
		wb.Delete(o.K)
	case "delrange":
		wb.DeleteRange(o.K, o.V)
	case "merge":
		wb.Merge(o.K, o.V)
	}
}

func refKey(r Ref) string { return r.String() }

// PartB: BFS over store contents; transitions = batches of one op (to fixpoint/depth) and,
// from every reached state, every ordered pair of ops in one batch, plus Clear and
// uncommitted-invisibility probes.
func PartB(spec EngSpec, col *ev.Collector, depth int, dl ev.Deadline) (st Stats, reached []Ref, complete bool) {
	eng, dir := Open(spec)
	defer func() { CloseEng(eng, dir) }()
	base := Ref{}
	for _, d := range Decoys {
		base[string(d)] = []byte("decoy")
	}
	ops := AlphabetFor(spec)
	seen := map[string]bool{refKey(base): true}
	frontier := []Ref{base}
	reached = []Ref{base}
	report := func(kind string, from Ref, batch []Op, got, want Ref) {
		names := []string{}
		for _, o := range batch {
			names = append(names, o.Kind)
		}
		col.Add(ev.Violation{Property: "C20", Signature: fmt.Sprintf("%s|batch|%s|%s", spec.Name, kind, strings.Join(names, "+")),
			What:   fmt.Sprintf("%s: state {%s} batch %v (%s): engine holds {%s}, reference {%s}", spec.Name, from, batch, kind, got, want),
			Replay: map[string]interface{}{"kind": "batch", "engine": spec.Name, "state": refJSON(from), "batch": batch, "probe": kind}})
	}
	step := func(from Ref, batch []Op, expand bool) Ref {
		Load(eng, from)
		want := from.clone()
		defined := true
		for _, o := range batch {
			if !applyRef(want, o) {
				defined = false
			}
		}
		wb := eng.NewWriteBatch()
		for _, o := range batch {
			addOp(wb, o)
		}
		// uncommitted ⇒ invisible
		if got := Dump(eng); refKey(got) != refKey(from) {
			report("uncommitted-visible", from, batch, got, from)
		}
		if err := wb.Commit(); err != nil {
			if defined {
				col.Add(ev.Violation{Property: "C20", Signature: spec.Name + "|batch|commit-error", What: fmt.Sprintf("%s: %v on %v: %v", spec.Name, from, batch, err)})
			}
			wb.Destroy()
			return nil
		}
		wb.Destroy()
		st.BatchTransitions++
		got := Dump(eng)
		if defined && refKey(got) != refKey(want) {
			st.Mismatch++
			report("committed", from, batch, got, want)
			return nil // violating states are not expanded
		}
		if !defined {
			col.Outcome("batch:reference-silent(merge on non-counter)")
			return nil
		}
		return want
	}
	for d := 1; d <= depth && len(frontier) > 0; d++ {
		var next []Ref
		for fi, from := range frontier {
			if dl.Hit() {
				return st, reached, false
			}
			if fi%8 == 7 {
				CloseEng(eng, dir)
				eng, dir = Open(spec)
			}
			for _, o := range ops {
				to := step(from, []Op{o}, true)
				if to != nil && !seen[refKey(to)] {
					seen[refKey(to)] = true
					next = append(next, to)
					reached = append(reached, to)
				}
			}
		}
		frontier = next
	}
	st.BatchStates = len(seen)
	complete = len(frontier) == 0
	return st, reached, complete
}

// PartC: from a set of start states, every ordered pair of ops in one batch; Clear probe.
func PartC(spec EngSpec, col *ev.Collector, starts []Ref, dl ev.Deadline) (st Stats, complete bool) {
	eng, dir := Open(spec)
	defer func() { CloseEng(eng, dir) }()
	ops := AlphabetFor(spec)
	for _, from := range starts {
		// a fresh engine per start state: range tombstones piling up in one memtable make
		// pebble iterators slower and slower (cost only, not a verdict)
		CloseEng(eng, dir)
		eng, dir = Open(spec)
		for _, a := range ops {
			if dl.Hit() {
				return st, false
			}
			// Clear: ops added then cleared must leave no trace, the batch stays usable
			Load(eng, from)
			wb := eng.NewWriteBatch()
			addOp(wb, a)
			wb.Clear()
			addOp(wb, Op{"put", K("zz"), []byte("after-clear")})
			err := wb.Commit()
			wb.Destroy()
			want := from.clone()
			want[string(K("zz"))] = []byte("after-clear")
			if got := Dump(eng); err != nil || refKey(got) != refKey(want) {
				col.Add(ev.Violation{Property: "C20", Signature: spec.Name + "|batch|clear|" + a.Kind,
					What:   fmt.Sprintf("%s: state {%s}: %v then Clear then put(zz): engine {%s} err %v, reference {%s}", spec.Name, from, a, got, err, want),
					Replay: map[string]interface{}{"kind": "clear", "engine": spec.Name, "state": refJSON(from), "op": a}})
			}
			st.BatchTransitions++
			// a batch object is reused (the store keeps one default batch): what it held before Clear, or
			// what it committed before, must not influence what it does next
			for _, b := range ops {
				// (delete-range as the earlier operation: one representative is enough, the later one ranges over all)
				if a.Kind == "delrange" && !(string(a.K) == string(BKeys[0]) && string(a.V) == string(K("\xff\xff"))) {
					break
				}
				Load(eng, from)
				want := from.clone()
				if !applyRef(want, b) {
					continue
				}
				wb := eng.NewWriteBatch()
				addOp(wb, a)
				wb.Clear()
				addOp(wb, b)
				err := wb.Commit()
				wb.Destroy()
				st.BatchTransitions++
				if got := Dump(eng); err != nil || refKey(got) != refKey(want) {
					col.Add(ev.Violation{Property: "C20", Signature: fmt.Sprintf("%s|batch|reuse-after-clear|%s,%s", spec.Name, a.Kind, b.Kind),
						What:   fmt.Sprintf("%s: state {%s}: %v, Clear, %v, Commit on one batch object: engine {%s} err %v, reference {%s}", spec.Name, from, a, b, got, err, want),
						Replay: map[string]interface{}{"kind": "reuse-clear", "engine": spec.Name, "state": refJSON(from), "batch": []Op{a, b}}})
				}
				if b.K == nil {
					continue
				}
				// a; Commit; Clear; another batch overwrites b's key; b; Commit
				Load(eng, from)
				want = from.clone()
				other := Op{"put", b.K, u64(100)}
				defined := applyRef(want, a)
				defined = applyRef(want, other) && defined
				defined = applyRef(want, b) && defined
				wb = eng.NewWriteBatch()
				addOp(wb, a)
				err1 := wb.Commit()
				wb.Clear()
				wb2 := eng.NewWriteBatch()
				addOp(wb2, other)
				err2 := wb2.Commit()
				wb2.Destroy()
				addOp(wb, b)
				err3 := wb.Commit()
				wb.Destroy()
				st.BatchTransitions++
				if !defined {
					continue
				}
				if got := Dump(eng); err1 != nil || err2 != nil || err3 != nil || refKey(got) != refKey(want) {
					col.Add(ev.Violation{Property: "C20", Signature: fmt.Sprintf("%s|batch|reuse-after-commit|%s,%s", spec.Name, a.Kind, b.Kind),
						What:   fmt.Sprintf("%s: state {%s}: batch1 [%v] Commit Clear; batch2 [%v] Commit; batch1 [%v] Commit: engine {%s} err %v %v %v, reference {%s}", spec.Name, from, a, other, b, got, err1, err2, err3, want),
						Replay: map[string]interface{}{"kind": "reuse-commit", "engine": spec.Name, "state": refJSON(from), "batch": []Op{a, other, b}}})
				}
			}
			for _, b := range ops {
				Load(eng, from)
				want := from.clone()
				defined := applyRef(want, a)
				defined = applyRef(want, b) && defined
				wb := eng.NewWriteBatch()
				addOp(wb, a)
				addOp(wb, b)
				err := wb.Commit()
				wb.Destroy()
				st.BatchTransitions++
				if !defined {
					continue
				}
				if got := Dump(eng); err != nil || refKey(got) != refKey(want) {
					st.Mismatch++
					col.Add(ev.Violation{Property: "C20", Signature: fmt.Sprintf("%s|batch|pair|%s+%s", spec.Name, a.Kind, b.Kind),
						What:   fmt.Sprintf("%s: state {%s} batch [%v %v]: engine {%s} err %v, reference {%s}", spec.Name, from, a, b, got, err, want),
						Replay: map[string]interface{}{"kind": "batch", "engine": spec.Name, "state": refJSON(from), "batch": []Op{a, b}}})
				}
			}
		}
	}
	return st, true
}
