package main

import (
	"fmt"
	"os"

	"zmc/servermc"
)

func main() {
	servermc.Silence()
	n, err := servermc.Start(23000, 4, "")
	if err != nil {
		fmt.Println(err)
		os.Exit(1)
	}
	defer n.Stop()
	c, _ := servermc.Dial(n.Port)
	pool := servermc.KeyPool(4)
	for _, cmd := range [][]string{{"set", pool[0], "a"}, {"get", pool[0]}, {"exists", pool[0], pool[1]}, {"get", pool[0]}, {"mget", pool[0], pool[1]}, {"get", pool[0]}, {"del", pool[0], pool[1]}, {"get", pool[0]},
		{"plset", pool[0], "x", pool[1], "y"}, {"get", pool[0]}, {"get", pool[1]}, {"del", pool[0]}, {"get", pool[1]}, {"exists", pool[1]}, {"get", pool[1]}} {
		r, err := c.Do(cmd...)
		fmt.Println(cmd, "->", r, err)
	}
}
