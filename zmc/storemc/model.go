package storemc

import (
	"fmt"
	"math"
	"sort"
	"strconv"
	"strings"
)

// Reference model of Redis semantics with ZanRedisDB's documented deviations (per-type
// keyspaces, SPOP in key order, a collection disappears with its last element).
// Boring on purpose: maps and slices. What the user guide / Redis do not define is
// returned as Unspec and not compared.

type Expect struct {
	Kind string // ok int bulk null arr err float unspec
	I    int64
	S    string
	A    []string
	F    float64
}

func eOK() Expect             { return Expect{Kind: "ok"} }
func eInt(i int64) Expect     { return Expect{Kind: "int", I: i} }
func eBulk(s string) Expect   { return Expect{Kind: "bulk", S: s} }
func eNull() Expect           { return Expect{Kind: "null"} }
func eErr() Expect            { return Expect{Kind: "err"} }
func eArr(a []string) Expect  { return Expect{Kind: "arr", A: a} }
func eFloat(f float64) Expect { return Expect{Kind: "float", F: f} }
func eUnspec() Expect         { return Expect{Kind: "unspec"} }
func eAnyInt() Expect         { return Expect{Kind: "anyint"} }

func (e Expect) String() string {
	switch e.Kind {
	case "int":
		return fmt.Sprintf(":%d", e.I)
	case "bulk":
		return fmt.Sprintf("%q", e.S)
	case "arr":
		return fmt.Sprintf("%q", e.A)
	case "float":
		return fmt.Sprintf("float %v", e.F)
	}
	return e.Kind
}

// Matches compares a state-machine level reply with the expectation. The state machine
// answers some commands with a raw value that the node-level wrapper turns into OK
// (checkOKRsp); both forms are accepted for "ok".
func (e Expect) Matches(r Reply) bool {
	switch e.Kind {
	case "unspec":
		return true
	case "ok":
		return r.Kind == "null" || (r.Kind == "str" && r.S == "OK") || r.Kind == "int"
	case "int":
		return r.Kind == "int" && r.I == e.I
	case "anyint":
		return r.Kind == "int"
	case "bulk":
		return r.Kind == "bulk" && r.S == e.S
	case "null":
		return r.Kind == "null" || (r.Kind == "arr" && len(r.A) == 0)
	case "err":
		return r.Kind == "err"
	case "arr":
		if r.Kind != "arr" || len(r.A) != len(e.A) {
			return false
		}
		for i := range e.A {
			if r.A[i].Kind != "bulk" || r.A[i].S != e.A[i] {
				return false
			}
		}
		return true
	case "float":
		var f float64
		var err error
		switch r.Kind {
		case "bulk", "str":
			f, err = strconv.ParseFloat(r.S, 64)
		case "int":
			f = float64(r.I)
		case "other":
			// "float64:1.5"
			i := strings.IndexByte(r.S, ':')
			if i < 0 {
				return false
			}
			f, err = strconv.ParseFloat(r.S[i+1:], 64)
		default:
			return false
		}
		return err == nil && f == e.F
	}
	return false
}

func parseInt(s string) (int64, bool) {
	v, err := strconv.ParseInt(s, 10, 64)
	return v, err == nil
}

func addOverflows(a, b int64) bool {
	c := a + b
	return (c > a) != (b > 0)
}

// redis range normalisation for lists / ranks: returns [lo,hi] inclusive or ok=false if empty
func normRange(start, stop, n int64) (int64, int64, bool) {
	if start < 0 {
		start += n
	}
	if stop < 0 {
		stop += n
	}
	if start < 0 {
		start = 0
	}
	if stop >= n {
		stop = n - 1
	}
	if start > stop || start >= n {
		return 0, 0, false
	}
	return start, stop, true
}

type scoreBound struct {
	v    float64
	excl bool
}

func parseScoreBound(s string) (scoreBound, bool) {
	var b scoreBound
	if strings.HasPrefix(s, "(") {
		b.excl = true
		s = s[1:]
	}
	switch strings.ToLower(s) {
	case "-inf":
		b.v = math.Inf(-1)
		return b, true
	case "+inf", "inf":
		b.v = math.Inf(1)
		return b, true
	}
	f, err := strconv.ParseFloat(s, 64)
	if err != nil || math.IsNaN(f) {
		return b, false
	}
	b.v = f
	return b, true
}

type zitem struct {
	m string
	s float64
}

func zsorted(z map[string]float64) []zitem {
	out := make([]zitem, 0, len(z))
	for m, s := range z {
		out = append(out, zitem{m, s})
	}
	sort.Slice(out, func(i, j int) bool {
		if out[i].s != out[j].s {
			return out[i].s < out[j].s
		}
		return out[i].m < out[j].m
	})
	return out
}

// Model applies cmd to a copy of the logical state. defined=false: the reference is silent
// about this command instance (neither reply nor effect is compared; the state is not expanded).
func Model(before Logical, cmd []string) (exp Expect, after Logical, defined bool) {
	l := before.Clone()
	name := strings.ToLower(cmd[0])
	a := cmd[1:]
	switch name {
	// ---------------- KV
	case "set":
		l.KV[a[0]] = a[1]
		return eOK(), l, true
	case "setnx":
		if _, ok := l.KV[a[0]]; ok {
			return eInt(0), l, true
		}
		l.KV[a[0]] = a[1]
		return eInt(1), l, true
	case "getset":
		old, ok := l.KV[a[0]]
		l.KV[a[0]] = a[1]
		if !ok {
			return eNull(), l, true
		}
		return eBulk(old), l, true
	case "incr", "incrby":
		d := int64(1)
		if name == "incrby" {
			var ok bool
			if d, ok = parseInt(a[1]); !ok {
				return eErr(), l, true
			}
		}
		cur := int64(0)
		if v, ok := l.KV[a[0]]; ok {
			var isInt bool
			if cur, isInt = parseInt(v); !isInt {
				return eErr(), l, true
			}
		}
		if addOverflows(cur, d) {
			return eErr(), l, true
		}
		l.KV[a[0]] = strconv.FormatInt(cur+d, 10)
		return eInt(cur + d), l, true
	case "append":
		v := l.KV[a[0]] + a[1]
		if _, ok := l.KV[a[0]]; !ok && a[1] == "" {
			// Redis creates an empty string; whether an empty append creates the key is not
			// documented for ZanRedisDB: only the reply (0) is compared, both outcomes accepted
			return eInt(0), l, false
		}
		l.KV[a[0]] = v
		return eInt(int64(len(v))), l, true
	case "setrange":
		off, ok := parseInt(a[1])
		if !ok || off < 0 {
			return eErr(), l, true
		}
		cur, exists := l.KV[a[0]]
		if a[2] == "" {
			// Redis: nothing happens, reply = current length
			if !exists {
				return eInt(0), l, true
			}
			return eInt(int64(len(cur))), l, true
		}
		b := []byte(cur)
		for int64(len(b)) < off+int64(len(a[2])) {
			b = append(b, 0)
		}
		copy(b[off:], a[2])
		l.KV[a[0]] = string(b)
		return eInt(int64(len(b))), l, true
	case "del":
		n := int64(0)
		for _, k := range a {
			if _, ok := l.KV[k]; ok {
				n++
				delete(l.KV, k)
			}
		}
		return eInt(n), l, true
	case "mset":
		for i := 0; i+1 < len(a); i += 2 {
			l.KV[a[i]] = a[i+1]
		}
		return eOK(), l, true
	// ---------------- hash
	case "hset", "hsetnx":
		h := l.Hash[a[0]]
		_, exists := h[a[1]]
		if name == "hsetnx" && exists {
			return eInt(0), l, true
		}
		if h == nil {
			h = map[string]string{}
			l.Hash[a[0]] = h
		}
		h[a[1]] = a[2]
		if exists {
			return eInt(0), l, true
		}
		return eInt(1), l, true
	case "hmset":
		h := l.Hash[a[0]]
		if h == nil {
			h = map[string]string{}
			l.Hash[a[0]] = h
		}
		for i := 1; i+1 < len(a); i += 2 {
			h[a[i]] = a[i+1]
		}
		return eOK(), l, true
	case "hdel":
		n := int64(0)
		for _, f := range a[1:] {
			if _, ok := l.Hash[a[0]][f]; ok {
				n++
				delete(l.Hash[a[0]], f)
			}
		}
		if len(l.Hash[a[0]]) == 0 {
			delete(l.Hash, a[0])
		}
		return eInt(n), l, true
	case "hincrby":
		d, ok := parseInt(a[2])
		if !ok {
			return eErr(), l, true
		}
		cur := int64(0)
		if v, ok := l.Hash[a[0]][a[1]]; ok {
			var isInt bool
			if cur, isInt = parseInt(v); !isInt {
				return eErr(), l, true
			}
		}
		if addOverflows(cur, d) {
			return eErr(), l, true
		}
		if l.Hash[a[0]] == nil {
			l.Hash[a[0]] = map[string]string{}
		}
		l.Hash[a[0]][a[1]] = strconv.FormatInt(cur+d, 10)
		return eInt(cur + d), l, true
	case "hclear":
		delete(l.Hash, a[0])
		return eAnyInt(), l, true // extension command, reply value not documented
	case "hmclear":
		for _, k := range a {
			delete(l.Hash, k)
		}
		return eAnyInt(), l, true
	// ---------------- set
	case "sadd":
		s := l.Set[a[0]]
		if s == nil {
			s = map[string]bool{}
			l.Set[a[0]] = s
		}
		n := int64(0)
		for _, m := range a[1:] {
			if !s[m] {
				n++
				s[m] = true
			}
		}
		return eInt(n), l, true
	case "srem":
		n := int64(0)
		for _, m := range a[1:] {
			if l.Set[a[0]][m] {
				n++
				delete(l.Set[a[0]], m)
			}
		}
		if len(l.Set[a[0]]) == 0 {
			delete(l.Set, a[0])
		}
		return eInt(n), l, true
	case "spop":
		ms := sortedKeys(l.Set[a[0]])
		if len(a) == 1 {
			if len(ms) == 0 {
				return eNull(), l, true
			}
			delete(l.Set[a[0]], ms[0])
			if len(l.Set[a[0]]) == 0 {
				delete(l.Set, a[0])
			}
			return eBulk(ms[0]), l, true
		}
		cnt, ok := parseInt(a[1])
		if !ok || cnt < 0 {
			return eErr(), l, true
		}
		if cnt == 0 {
			// Redis answers an empty array, ZanRedisDB an error; not documented → only "no effect"
			return eUnspec(), l, true
		}
		if int(cnt) > len(ms) {
			cnt = int64(len(ms))
		}
		for _, m := range ms[:cnt] {
			delete(l.Set[a[0]], m)
		}
		if len(l.Set[a[0]]) == 0 {
			delete(l.Set, a[0])
		}
		return eArr(ms[:cnt]), l, true
	case "sclear":
		delete(l.Set, a[0])
		return eAnyInt(), l, true
	case "smclear":
		for _, k := range a {
			delete(l.Set, k)
		}
		return eAnyInt(), l, true
	// ---------------- list
	case "lpush", "rpush":
		v := l.List[a[0]]
		for _, x := range a[1:] {
			if name == "lpush" {
				v = append([]string{x}, v...)
			} else {
				v = append(v, x)
			}
		}
		l.List[a[0]] = v
		return eInt(int64(len(v))), l, true
	case "lpop", "rpop":
		v := l.List[a[0]]
		if len(v) == 0 {
			return eNull(), l, true
		}
		var x string
		if name == "lpop" {
			x, v = v[0], v[1:]
		} else {
			x, v = v[len(v)-1], v[:len(v)-1]
		}
		if len(v) == 0 {
			delete(l.List, a[0])
		} else {
			l.List[a[0]] = v
		}
		return eBulk(x), l, true
	case "lset":
		idx, ok := parseInt(a[1])
		v := l.List[a[0]]
		if !ok {
			return eErr(), l, true
		}
		if idx < 0 {
			idx += int64(len(v))
		}
		if idx < 0 || idx >= int64(len(v)) {
			return eErr(), l, true
		}
		v[idx] = a[2]
		return eOK(), l, true
	case "ltrim":
		s, ok1 := parseInt(a[1])
		e, ok2 := parseInt(a[2])
		if !ok1 || !ok2 {
			return eErr(), l, true
		}
		v := l.List[a[0]]
		lo, hi, ok := normRange(s, e, int64(len(v)))
		if !ok {
			delete(l.List, a[0])
		} else {
			l.List[a[0]] = append([]string(nil), v[lo:hi+1]...)
		}
		return eOK(), l, true
	case "lclear":
		delete(l.List, a[0])
		return eAnyInt(), l, true
	// ---------------- zset
	case "zadd":
		if len(a) < 3 || len(a)%2 == 0 {
			return eErr(), l, true
		}
		var sc []float64
		for i := 1; i < len(a); i += 2 {
			f, err := strconv.ParseFloat(a[i], 64)
			if err != nil || math.IsNaN(f) {
				return eErr(), l, true
			}
			sc = append(sc, f)
		}
		z := l.ZSet[a[0]]
		if z == nil {
			z = map[string]float64{}
			l.ZSet[a[0]] = z
		}
		n := int64(0)
		for i, j := 2, 0; i < len(a); i, j = i+2, j+1 {
			if _, ok := z[a[i]]; !ok {
				n++
			}
			z[a[i]] = sc[j]
		}
		return eInt(n), l, true
	case "zincrby":
		d, err := strconv.ParseFloat(a[1], 64)
		if err != nil || math.IsNaN(d) {
			return eErr(), l, true
		}
		z := l.ZSet[a[0]]
		if z == nil {
			z = map[string]float64{}
			l.ZSet[a[0]] = z
		}
		z[a[2]] += d
		return eFloat(z[a[2]]), l, true
	case "zrem":
		n := int64(0)
		for _, m := range a[1:] {
			if _, ok := l.ZSet[a[0]][m]; ok {
				n++
				delete(l.ZSet[a[0]], m)
			}
		}
		if len(l.ZSet[a[0]]) == 0 {
			delete(l.ZSet, a[0])
		}
		return eInt(n), l, true
	case "zremrangebyrank":
		s, ok1 := parseInt(a[1])
		e, ok2 := parseInt(a[2])
		if !ok1 || !ok2 {
			return eErr(), l, true
		}
		items := zsorted(l.ZSet[a[0]])
		lo, hi, ok := normRange(s, e, int64(len(items)))
		if !ok {
			return eInt(0), l, true
		}
		for _, it := range items[lo : hi+1] {
			delete(l.ZSet[a[0]], it.m)
		}
		if len(l.ZSet[a[0]]) == 0 {
			delete(l.ZSet, a[0])
		}
		return eInt(hi - lo + 1), l, true
	case "zremrangebyscore":
		lo, ok1 := parseScoreBound(a[1])
		hi, ok2 := parseScoreBound(a[2])
		if !ok1 || !ok2 {
			return eErr(), l, true
		}
		n := int64(0)
		for m, s := range l.ZSet[a[0]] {
			if (s > lo.v || (s == lo.v && !lo.excl)) && (s < hi.v || (s == hi.v && !hi.excl)) {
				n++
				delete(l.ZSet[a[0]], m)
			}
		}
		if len(l.ZSet[a[0]]) == 0 {
			delete(l.ZSet, a[0])
		}
		return eInt(n), l, true
	case "zremrangebylex":
		// Redis defines lex ranges only when all scores are equal
		var first float64
		i := 0
		for _, s := range l.ZSet[a[0]] {
			if i == 0 {
				first = s
			} else if s != first {
				return eUnspec(), l, false
			}
			i++
		}
		in := func(m string) (bool, bool) {
			lo, hi := a[1], a[2]
			okLo, okHi := false, false
			switch {
			case lo == "-":
				okLo = true
			case lo == "+":
				okLo = false
			case strings.HasPrefix(lo, "["):
				okLo = m >= lo[1:]
			case strings.HasPrefix(lo, "("):
				okLo = m > lo[1:]
			default:
				return false, false
			}
			switch {
			case hi == "+":
				okHi = true
			case hi == "-":
				okHi = false
			case strings.HasPrefix(hi, "["):
				okHi = m <= hi[1:]
			case strings.HasPrefix(hi, "("):
				okHi = m < hi[1:]
			default:
				return false, false
			}
			return okLo && okHi, true
		}
		if _, valid := in(""); !valid {
			return eErr(), l, true
		}
		n := int64(0)
		for m := range l.ZSet[a[0]] {
			if ok, _ := in(m); ok {
				n++
				delete(l.ZSet[a[0]], m)
			}
		}
		if len(l.ZSet[a[0]]) == 0 {
			delete(l.ZSet, a[0])
		}
		return eInt(n), l, true
	case "zclear":
		delete(l.ZSet, a[0])
		return eAnyInt(), l, true
	}
	return eUnspec(), l, false
}

// C08Oracle compares reply and resulting logical state with the reference model.
func C08Oracle(s *Store, u *Universe, before Logical, cmd []string, reply Reply, after Logical, probs []string) [][3]string {
	exp, want, defined := Model(before, cmd)
	var out [][3]string
	shape := cmdShape(cmd)
	if reply.Kind == "panic" || (reply.Kind == "err" && strings.HasPrefix(reply.S, "PANIC")) {
		return [][3]string{{"C08", "C08|" + shape + "|panic-in-apply", "apply panicked: " + reply.S}}
	}
	if !exp.Matches(reply) {
		out = append(out, [3]string{"C08", "C08|" + shape + "|reply", fmt.Sprintf("reply %v, reference model says %v", reply, exp)})
	}
	if !defined {
		return out
	}
	if reply.Kind == "err" && exp.Kind != "err" && exp.Kind != "unspec" {
		// the mismatch is already reported through the reply
		return out
	}
	if exp.Kind == "err" {
		want = before
	}
	if got, w := after.String(), want.String(); got != w {
		out = append(out, [3]string{"C08", "C08|" + shape + "|state", fmt.Sprintf("resulting data {%s}, reference model says {%s}", got, w)})
	}
	return out
}
