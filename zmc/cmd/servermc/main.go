// servermc: checks on a live data node (C15, C11).
package main

import (
	"flag"
	"fmt"
	"os"
	"time"

	"zmc/ev"
	"zmc/servermc"
)

func main() {
	prop := flag.String("prop", "C15", "")
	tier := flag.String("tier", "quick", "")
	replay := flag.String("replay", "", "")
	child := flag.String("child", "", "internal")
	flag.Parse()
	servermc.Silence()
	if *child != "" {
		servermc.ChildMain(*child)
		return
	}
	if *replay != "" {
		if *prop == "C11" {
			os.Exit(servermc.ReplayC11(*replay))
		}
		fmt.Println("see", *replay)
		os.Exit(1)
	}
	switch *prop {
	case "C15":
		os.Exit(runC15(*tier))
	case "C11":
		os.Exit(servermc.RunC11(*tier))
	}
	fmt.Println("INFRA: unknown property")
	os.Exit(2)
}

func basePort() int { return servermc.FreeBase() }

func runC15(tier string) int {
	quick := tier == "quick"
	col := ev.NewCollector("C15", tier, "exploration")
	dl := ev.NewDeadline(ev.EnvDur("VERIF_BUDGET", map[bool]time.Duration{true: 300 * time.Second, false: 20 * time.Minute}[quick]))
	maxLen := 4
	if quick {
		maxLen = 3
	}
	t0 := time.Now()
	hs, ok1 := servermc.RunHashAgreement(col, maxLen, dl)
	fmt.Printf("[C15] hash agreement: keys=%d comparisons=%d complete=%v %.1fs\n", hs.Keys, hs.Comparisons, ok1, time.Since(t0).Seconds())
	t0 = time.Now()
	n, err := servermc.Start(basePort(), 4, "")
	if err != nil {
		fmt.Println("INFRA: cannot start the server:", err)
		return 2
	}
	ms, ok2 := servermc.RunMerge(col, n, dl)
	n.Stop()
	fmt.Printf("[C15] live 4-partition server: commands=%d writes=%d partitions hit by the key pool=%d complete=%v %.1fs\n", ms.Commands, ms.Writes, ms.PartitionsHit, ok2, time.Since(t0).Seconds())
	n2, err := servermc.StartWith(servermc.Opts{Port: basePort(), Parts: 3, Host: []int{0, 1}})
	if err != nil {
		fmt.Println("INFRA: cannot start the partially hosting server:", err)
		return 2
	}
	partial := servermc.RunPartialHost(col, n2)
	recreated := servermc.RunRecreated(col, n2)
	n2.Stop()
	fmt.Printf("[C15] namespace created again with another partition count: keys routed=%d\n", recreated)
	col.Set("recreated_namespace_keys", recreated)
	fmt.Printf("[C15] node hosting 2 of 3 partitions: commands=%d\n", partial)
	col.Set("partial_host_commands", partial)
	col.Set("evaluations", hs.Comparisons+ms.Commands)
	col.Set("distinct_nontrivial", hs.Keys+ms.Commands)
	col.Set("hash", map[string]interface{}{"keys": hs.Keys, "comparisons": hs.Comparisons, "max_key_len": maxLen})
	col.Set("merge", map[string]interface{}{"commands": ms.Commands, "writes_with_partition_diff": ms.Writes, "partitions_hit": ms.PartitionsHit})
	col.Set("exhaustive", ok1 && ok2)
	col.Set("rule", "hash: every key over {a,':',0,00,ff,-} up to the length bound under two table names x every partition count 1..1024: the server's own routing (GetPKAndHashSum + NamespaceMgr.GetNamespaceNodeWithPrimaryKey on stub metas) vs the official SDK (NewPKey.ShardingKey + GetHashedPartitionID), index in range; merge: a live single-node server with a 4-partition namespace over its real redis port, every argument list of length <=3 (duplicates included) over a 4-key pool hitting >=3 partitions, from three prior states, for EXISTS, MGET, DEL, PLSET; the physical dump of every partition is diffed around every write; replies and data against a single-store model")
	col.Sample(map[string]interface{}{"pool": servermc.KeyPool(4), "commands": []string{"exists", "mget", "del", "plset"}})
	if ms.PartitionsHit < 3 && col.NumViolationSigs() == 0 {
		fmt.Println("INFRA: vacuous (key pool does not span 3 partitions)")
		col.Finish()
		return 2
	}
	return col.Finish()
}
