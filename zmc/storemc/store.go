// Package storemc drives the real state machine (node.kvStoreSM → rockredis → engine) and the
// real read handlers of node.KVNode without raft (DESIGN.md E5): writes are applied through
// StateMachine.ApplyRaftRequest exactly as the apply loop does, reads go through the handlers
// registered in node/node_cmd_reg.go with a capturing redcon.Conn.
package storemc

import (
	"bytes"
	"fmt"
	"net"
	"os"
	"sort"
	"strings"
	"sync"
	"sync/atomic"

	"github.com/absolute8511/redcon"
	"github.com/youzan/ZanRedisDB/common"
	"github.com/youzan/ZanRedisDB/engine"
	"github.com/youzan/ZanRedisDB/node"
	"github.com/youzan/ZanRedisDB/pkg/wait"
	"github.com/youzan/ZanRedisDB/rockredis"
)

const NS = "ns"

func init() {
	engine.SetLogger(0, nil)
	node.SetLogger(0, nil)
	rockredis.SetLogger(0, nil)
}

// ---- replies -----------------------------------------------------------------

type Reply struct {
	Kind string // err str bulk int null arr
	S    string
	I    int64
	A    []Reply
}

func (r Reply) String() string {
	switch r.Kind {
	case "err":
		return "ERR(" + r.S + ")"
	case "str":
		return "+" + r.S
	case "bulk":
		return fmt.Sprintf("%q", r.S)
	case "int":
		return fmt.Sprintf(":%d", r.I)
	case "null":
		return "nil"
	case "arr":
		p := make([]string, len(r.A))
		for i, x := range r.A {
			p[i] = x.String()
		}
		return "[" + strings.Join(p, " ") + "]"
	}
	return "?" + r.Kind
}

func (r Reply) IsErr() bool { return r.Kind == "err" }

func Err(s string) Reply   { return Reply{Kind: "err", S: s} }
func Int(i int64) Reply    { return Reply{Kind: "int", I: i} }
func Bulk(s string) Reply  { return Reply{Kind: "bulk", S: s} }
func Str(s string) Reply   { return Reply{Kind: "str", S: s} }
func Null() Reply          { return Reply{Kind: "null"} }
func Arr(a ...Reply) Reply { return Reply{Kind: "arr", A: a} }
func BulkArr(ss []string) Reply {
	a := make([]Reply, len(ss))
	for i, s := range ss {
		a[i] = Bulk(s)
	}
	return Reply{Kind: "arr", A: a}
}

// FromValue converts what a state-machine handler returns into a Reply the way
// server/redis_api.go's response writer would.
func FromValue(v interface{}) Reply {
	switch x := v.(type) {
	case nil:
		return Null()
	case error:
		return Err(x.Error())
	case string:
		return Str(x)
	case []byte:
		if x == nil {
			return Null()
		}
		return Bulk(string(x))
	case int64:
		return Int(x)
	case int:
		return Int(int64(x))
	case uint64:
		return Int(int64(x))
	case bool:
		if x {
			return Int(1)
		}
		return Int(0)
	case [][]byte:
		a := make([]Reply, len(x))
		for i, b := range x {
			if b == nil {
				a[i] = Null()
			} else {
				a[i] = Bulk(string(b))
			}
		}
		return Reply{Kind: "arr", A: a}
	case []string:
		return BulkArr(x)
	case []interface{}:
		a := make([]Reply, len(x))
		for i, b := range x {
			a[i] = FromValue(b)
		}
		return Reply{Kind: "arr", A: a}
	}
	return Reply{Kind: "other", S: fmt.Sprintf("%T:%v", v, v)}
}

// capConn records what a read handler writes.
type capConn struct {
	toks []Reply // flat; arr entries carry I = count
}

func (c *capConn) RemoteAddr() string             { return "verif" }
func (c *capConn) Close() error                   { return nil }
func (c *capConn) WriteError(msg string)          { c.toks = append(c.toks, Err(msg)) }
func (c *capConn) WriteString(str string)         { c.toks = append(c.toks, Str(str)) }
func (c *capConn) WriteBulk(bulk []byte)          { c.toks = append(c.toks, Bulk(string(bulk))) }
func (c *capConn) WriteBulkString(bulk string)    { c.toks = append(c.toks, Bulk(bulk)) }
func (c *capConn) WriteInt(num int)               { c.toks = append(c.toks, Int(int64(num))) }
func (c *capConn) WriteInt64(num int64)           { c.toks = append(c.toks, Int(num)) }
func (c *capConn) WriteArray(count int)           { c.toks = append(c.toks, Reply{Kind: "arr", I: int64(count)}) }
func (c *capConn) WriteNull()                     { c.toks = append(c.toks, Null()) }
func (c *capConn) WriteRaw(data []byte)           { c.toks = append(c.toks, Reply{Kind: "raw", S: string(data)}) }
func (c *capConn) Context() interface{}           { return nil }
func (c *capConn) SetContext(v interface{})       {}
func (c *capConn) SetReadBuffer(bytes int)        {}
func (c *capConn) Detach() redcon.DetachedConn    { return nil }
func (c *capConn) ReadPipeline() []redcon.Command { return nil }
func (c *capConn) PeekPipeline() []redcon.Command { return nil }
func (c *capConn) NetConn() net.Conn              { return nil }
func (c *capConn) Flush() error                   { return nil }

func (c *capConn) tree() Reply {
	pos := 0
	var parse func() Reply
	parse = func() Reply {
		if pos >= len(c.toks) {
			return Reply{Kind: "truncated"}
		}
		t := c.toks[pos]
		pos++
		if t.Kind == "arr" {
			n := int(t.I)
			out := Reply{Kind: "arr", A: make([]Reply, 0, n)}
			for i := 0; i < n; i++ {
				out.A = append(out.A, parse())
			}
			return out
		}
		return t
	}
	if len(c.toks) == 0 {
		return Reply{Kind: "noreply"}
	}
	r := parse()
	if pos != len(c.toks) {
		return Reply{Kind: "multi", S: fmt.Sprintf("%v", c.toks)}
	}
	return r
}

// ---- wait capture ---------------------------------------------------------------

type capWait struct {
	mu  sync.Mutex
	got map[uint64]interface{}
	reg map[uint64]bool
}

type capRes struct{}

func (capRes) GetResult() interface{} { return nil }
func (capRes) WaitC() <-chan struct{} { return nil }

func (w *capWait) Register(id uint64) wait.WaitResult {
	w.mu.Lock()
	w.reg[id] = true
	w.mu.Unlock()
	return capRes{}
}
func (w *capWait) RegisterWithC(id uint64, done chan struct{}) wait.WaitResult {
	return w.Register(id)
}
func (w *capWait) Trigger(id uint64, x interface{}) {
	w.mu.Lock()
	if _, dup := w.got[id]; !dup {
		w.got[id] = x
	}
	delete(w.reg, id)
	w.mu.Unlock()
}
func (w *capWait) IsRegistered(id uint64) bool { w.mu.Lock(); defer w.mu.Unlock(); return w.reg[id] }

var _ wait.Wait = (*capWait)(nil)

// ---- store -------------------------------------------------------------------------

type Options struct {
	Engine  string // mem-skiplist | mem-radix | mem-btree | pebble | rocksdb
	Policy  common.ExpirationPolicy
	DataVer common.DataVersionT
	Dir     string // optional: reuse a directory (reopen)
	// Leader: register waiters before applying (leader role); otherwise follower role
	Leader bool
	// EngineWAL keeps the engine's own write-ahead log (needed where checkpoints are taken)
	EngineWAL  bool
	KeepBackup int
}

type Store struct {
	Opt    Options
	SM     node.StateMachine
	DB     *rockredis.RockDB
	RN     *node.KVNode
	W      *capWait
	Dir    string
	nextID uint64
	Index  uint64
}

var dirSeq uint64

func engCfg(name string) (string, int) {
	switch name {
	case "mem-skiplist":
		return "mem", 0
	case "mem-radix":
		return "mem", 1
	case "mem-btree":
		return "mem", 2
	case "pebble":
		return "pebble", 0
	case "rocksdb":
		return "rocksdb", 0
	}
	panic("unknown engine " + name)
}

func Open(opt Options) *Store {
	et, mt := engCfg(opt.Engine)
	if et == "mem" {
		engine.VerifSetMemType(mt)
	}
	dir := opt.Dir
	if dir == "" {
		dir = fmt.Sprintf("/dev/shm/zrverif/store-%d/%d", os.Getpid(), atomic.AddUint64(&dirSeq, 1))
	}
	os.MkdirAll(dir, 0o755)
	keep := opt.KeepBackup
	if keep == 0 {
		keep = 3
	}
	kvopts := &node.KVOptions{DataDir: dir, KeepBackup: keep, EngType: rockredis.EngType, ExpirationPolicy: opt.Policy, DataVersion: opt.DataVer}
	kvopts.RockOpts.EngineType = et
	kvopts.RockOpts.BlockCache = 8 << 20
	kvopts.RockOpts.WriteBufferSize = 4 << 20
	kvopts.RockOpts.DisableWAL = !opt.EngineWAL
	engine.FillDefaultOptions(&kvopts.RockOpts)
	if et == "rocksdb" {
		sc, err := engine.NewSharedEngConfig(kvopts.RockOpts)
		if err != nil {
			panic(err)
		}
		kvopts.SharedConfig = sc
	}
	w := &capWait{got: map[uint64]interface{}{}, reg: map[uint64]bool{}}
	sm, err := node.NewStateMachine(kvopts, node.MachineConfig{}, 1, NS+"-0", nil, w, nil)
	if err != nil {
		panic(err)
	}
	s := &Store{Opt: opt, SM: sm, W: w, Dir: dir, nextID: 1}
	s.DB = node.VerifRockDB(sm)
	s.RN = node.VerifNewReadNode(sm, NS+"-0", opt.Policy)
	return s
}

// Reset empties the store through the production path KVStore.CleanData (close, remove the
// data directory, reopen): unlike Load(Dump{}) it also drops in-memory caches (HLL cache).
func (s *Store) Reset() {
	if err := s.SM.CleanData(); err != nil {
		panic(err)
	}
	s.DB = node.VerifRockDB(s.SM)
}

func (s *Store) Close() {
	s.SM.Close()
}

func (s *Store) Destroy() {
	s.SM.Close()
	os.RemoveAll(s.Dir)
}

func toArgs(args []string) [][]byte {
	out := make([][]byte, len(args))
	for i, a := range args {
		out[i] = []byte(a)
	}
	return out
}

// Entry is one raft log entry: a batch of redis commands with one timestamp.
type Entry struct {
	Ts   int64
	Cmds [][]string // keys already without namespace ("table:key"), as the leader proposes them
}

// ApplyEntries applies entries inside ONE apply batch (one GetBatchOperator, CommitBatch at
// the end) as KVNode.applyEntries does, and returns the reply of every command in order.
func (s *Store) ApplyEntries(ents []Entry, replaying bool) (out [][]Reply) {
	batch := s.SM.GetBatchOperator()
	var ids [][]uint64
	for _, e := range ents {
		s.Index++
		var reqs node.BatchInternalRaftRequest
		reqs.Timestamp = e.Ts
		var eids []uint64
		for _, c := range e.Cmds {
			id := s.nextID
			s.nextID++
			eids = append(eids, id)
			if s.Opt.Leader {
				s.W.Register(id)
			}
			var r node.InternalRaftRequest
			r.Header.ID = id
			r.Header.DataType = 0
			r.Header.Timestamp = e.Ts
			r.Data = common.BuildCommand(toArgs(c)).Raw
			reqs.Reqs = append(reqs.Reqs, r)
		}
		reqs.ReqNum = int32(len(reqs.Reqs))
		ids = append(ids, eids)
		func() {
			defer func() {
				if r := recover(); r != nil {
					for _, id := range eids {
						s.W.Trigger(id, fmt.Errorf("PANIC in apply: %v", r))
					}
				}
			}()
			s.SM.ApplyRaftRequest(replaying, batch, reqs, 1, s.Index, nil)
		}()
	}
	batch.CommitBatch()
	for _, eids := range ids {
		var rs []Reply
		for _, id := range eids {
			s.W.mu.Lock()
			v, ok := s.W.got[id]
			delete(s.W.got, id)
			s.W.mu.Unlock()
			if !ok {
				rs = append(rs, Reply{Kind: "noreply"})
			} else {
				rs = append(rs, FromValue(v))
			}
		}
		out = append(out, rs)
	}
	return out
}

// Write applies one command as its own entry in its own batch.
func (s *Store) Write(ts int64, args ...string) Reply {
	return s.ApplyEntries([]Entry{{Ts: ts, Cmds: [][]string{args}}}, false)[0][0]
}

// Read calls a registered read handler; the key (args[1]) is given without namespace.
func (s *Store) Read(args ...string) (rep Reply) {
	h, ok := s.RN.VerifReadHandler(strings.ToLower(args[0]))
	if !ok {
		return Err("no read handler " + args[0])
	}
	a := toArgs(args)
	if len(a) > 1 {
		a[1] = []byte(NS + ":" + args[1])
	}
	cmd := common.BuildCommand(a)
	c := &capConn{}
	defer func() {
		if r := recover(); r != nil {
			rep = Reply{Kind: "panic", S: fmt.Sprintf("%v", r)}
		}
	}()
	h(c, cmd)
	return c.tree()
}

// ---- physical state ---------------------------------------------------------------

type Dump map[string]string

func (s *Store) Eng() engine.KVEngine { return rockredis.VerifEngine(s.DB) }

func (s *Store) Dump() Dump {
	it, err := s.Eng().GetIterator(engine.IteratorOpts{})
	if err != nil {
		panic(err)
	}
	defer it.Close()
	d := Dump{}
	for it.SeekToFirst(); it.Valid(); it.Next() {
		d[string(it.Key())] = string(it.Value())
	}
	return d
}

// Load makes the engine hold exactly d (raw engine writes; used to re-materialise a state
// the code itself produced earlier).
func (s *Store) Load(d Dump) {
	cur := s.Dump()
	wb := s.Eng().NewWriteBatch()
	for k := range cur {
		if _, ok := d[k]; !ok {
			wb.Delete([]byte(k))
		}
	}
	for k, v := range d {
		if c, ok := cur[k]; !ok || c != v {
			wb.Put([]byte(k), []byte(v))
		}
	}
	if err := wb.Commit(); err != nil {
		panic(err)
	}
	wb.Destroy()
}

func (d Dump) Key(skip func(k string) bool) string {
	ks := make([]string, 0, len(d))
	for k := range d {
		if skip != nil && skip(k) {
			continue
		}
		ks = append(ks, k)
	}
	sort.Strings(ks)
	var sb bytes.Buffer
	for _, k := range ks {
		fmt.Fprintf(&sb, "%d:%s=%d:%s;", len(k), k, len(d[k]), d[k])
	}
	return sb.String()
}

func (d Dump) Pretty() string {
	ks := make([]string, 0, len(d))
	for k := range d {
		ks = append(ks, k)
	}
	sort.Strings(ks)
	var sb strings.Builder
	for _, k := range ks {
		fmt.Fprintf(&sb, "%q=%q ", k, d[k])
	}
	return sb.String()
}
