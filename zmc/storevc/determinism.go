package storevc

import (
	"fmt"
	"os"
	"strings"

	"github.com/youzan/ZanRedisDB/common"
	"zmc/ev"
	"zmc/storemc"
)

// C07: the stored data and the replies are a function of the log alone.

type Family struct {
	Name  string
	Pool  [][]string
	Reads [][]string
}

func Families() []Family {
	return []Family{
		{"kv", [][]string{{"set", "t:k", "1"}, {"append", "t:k", "x"}, {"setrange", "t:k", "2", "yy"}, {"incr", "t:k"}, {"setnx", "t:j", "n"}, {"getset", "t:k", "7"}, {"mset", "t:k", "a", "t:j", "b"}, {"del", "t:k", "t:j"},
			// refused in apply at its second key (no table prefix) after the first one was staged
			{"mset", "t:j", "p", "nokey", "q"}},
			[][]string{{"get", "t:k"}, {"get", "t:j"}, {"ttl", "t:k"}}},
		// the commands that share one write batch (set, setex, del, hmset), colliding on the first and on a later key
		// ... and one that passes the leader's validation but fails in apply (the batch is aborted in the middle)
		{"batchable", [][]string{{"set", "t:k", "1"}, {"set", "t:j", "2"}, {"set", "t:j", "3", "nx"}, {"setex", "t:j", "100", "v"}, {"del", "t:j"}, {"del", "t:k", "t:j"}, {"del", "t:j", "t:k"}, {"hmset", "t:j", "a", "1"}, {"setex", "t:k", "notanumber", "v"}},
			[][]string{{"get", "t:k"}, {"get", "t:j"}, {"hgetall", "t:j"}}},
		{"hash", [][]string{{"hset", "t:h", "a", "1"}, {"hmset", "t:h", "a", "x", "b", "2"}, {"hdel", "t:h", "a"}, {"hincrby", "t:h", "b", "3"}, {"hclear", "t:h"}, {"hsetnx", "t:h", "c", "1"}},
			[][]string{{"hgetall", "t:h"}, {"hlen", "t:h"}}},
		{"list", [][]string{{"lpush", "t:l", "a", "b"}, {"rpush", "t:l", "c"}, {"lpop", "t:l"}, {"rpop", "t:l"}, {"ltrim", "t:l", "0", "0"}, {"lset", "t:l", "0", "z"}, {"lclear", "t:l"}},
			[][]string{{"lrange", "t:l", "0", "-1"}, {"llen", "t:l"}}},
		{"set", [][]string{{"sadd", "t:s", "a", "b"}, {"sadd", "t:s", "c"}, {"srem", "t:s", "a"}, {"spop", "t:s"}, {"spop", "t:s", "2"}, {"sclear", "t:s"}},
			[][]string{{"smembers", "t:s"}, {"scard", "t:s"}}},
		{"zset", [][]string{{"zadd", "t:z", "1", "a", "2", "b"}, {"zincrby", "t:z", "1.5", "a"}, {"zrem", "t:z", "b"}, {"zremrangebyrank", "t:z", "0", "0"}, {"zremrangebyscore", "t:z", "(1", "3"}, {"zclear", "t:z"}},
			[][]string{{"zrange", "t:z", "0", "-1", "withscores"}, {"zcard", "t:z"}}},
		{"bitmap", [][]string{{"setbitv2", "t:b", "7", "1"}, {"setbitv2", "t:b", "100000", "1"}, {"setbitv2", "t:b", "7", "0"}, {"bitclear", "t:b"}},
			[][]string{{"getbit", "t:b", "7"}, {"bitcount", "t:b"}}},
		{"hll", [][]string{{"pfadd", "t:p", "a"}, {"pfadd", "t:p", "b", "c"}, {"pfadd", "t:p", "a"}, {"del", "t:p"}},
			[][]string{{"pfcount", "t:p"}}},
		{"json", [][]string{{"json.set", "t:j", ".", `{"a":[1],"b":"x"}`}, {"json.arrappend", "t:j", "a", "2", "3"}, {"json.arrpop", "t:j", "a"}, {"json.set", "t:j", "b", `"y"`}, {"json.del", "t:j", "b"}},
			[][]string{{"json.get", "t:j"}, {"json.arrlen", "t:j", "a"}}},
		// a set with a time to live: SPOP picks its members while the replica's wall clock may be on the other side of the expiry
		// a command that fails in apply between two batched ones (three entries: explored one entry deeper);
		// the replies of the neighbours differ from each other so that a shifted reply is visible
		{"batch-abort", [][]string{{"del", "t:k"}, {"set", "t:j", "3", "nx"}, {"setex", "t:k", "notanumber", "v"}, {"set", "t:k", "1"}},
			[][]string{{"get", "t:k"}, {"get", "t:j"}}},
		// (a small pool explored one entry deeper than the others: create, expire, pop needs three entries)
		{"ttl-set", [][]string{{"sadd", "t:s", "a", "b", "c"}, {"sexpire", "t:s", "1"}, {"spop", "t:s"}, {"spersist", "t:s"}},
			[][]string{{"smembers", "t:s"}, {"scard", "t:s"}, {"sttl", "t:s"}}},
		{"ttl", [][]string{{"setex", "t:k", "1", "v"}, {"set", "t:k", "w"}, {"expire", "t:k", "1"}, {"persist", "t:k"}, {"append", "t:k", "x"}, {"incr", "t:k"}, {"hset", "t:h", "a", "1"}, {"hexpire", "t:h", "1"}, {"hincrby", "t:h", "a", "1"}},
			[][]string{{"get", "t:k"}, {"ttl", "t:k"}, {"hgetall", "t:h"}, {"httl", "t:h"}}},
	}
}

// timestamp patterns: offsets (ns) of entry k from the log start
var tsPatterns = map[string]func(k int) int64{
	"+1ns":        func(k int) int64 { return int64(k) },
	"+1s":         func(k int) int64 { return int64(k) * 1e9 },
	"+1s-1ns":     func(k int) int64 { return int64(k)*1e9 - int64(k) },
	"second-edge": func(k int) int64 { return []int64{0, 999999999, 1000000000, 1000000001, 2000000000}[k%5] },
}

type runResult struct {
	replies  []string
	view     string
	physical string
}

func execLog(s *storemc.Store, fam Family, log [][]string, ts func(int) int64, chunks uint, replaying bool, clockOff int64, readClock int64) runResult {
	return execLogRestart(s, fam, log, ts, chunks, replaying, clockOff, readClock, -1)
}

// execLogRestart: as execLog; after entry restartAfter (a batch boundary) the replica is restarted: what the engine
// holds is kept, everything the process held in memory (open write batch, caches, index and expiry bookkeeping) is
// dropped (dump, CleanData = close and reopen the engine, load the dump), and the rest of the log is applied with
// the replaying flag as given.
func execLogRestart(s *storemc.Store, fam Family, log [][]string, ts func(int) int64, chunks uint, replaying bool, clockOff int64, readClock int64, restartAfter int) runResult {
	s.Reset()
	SetClock(clockOff, 123456789)
	var res runResult
	// chunks bit k set = a batch boundary after entry k
	var batch []storemc.Entry
	restarted := false
	flush := func() {
		if len(batch) == 0 {
			return
		}
		for _, rs := range s.ApplyEntries(batch, replaying && (restartAfter < 0 || restarted)) {
			for _, r := range rs {
				res.replies = append(res.replies, r.String())
			}
		}
		batch = nil
	}
	for k, c := range log {
		batch = append(batch, storemc.Entry{Ts: T0*1e9 + ts(k), Cmds: [][]string{c}})
		if chunks&(1<<uint(k)) != 0 || k == restartAfter {
			flush()
		}
		if k == restartAfter {
			d := s.Dump()
			s.Reset()
			s.Load(d)
			restarted = true
		}
	}
	flush()
	SetClock(readClock, 0)
	var sb strings.Builder
	for _, r := range fam.Reads {
		fmt.Fprintf(&sb, "%v=%v; ", r, s.Read(r...))
	}
	res.view = sb.String()
	res.physical = s.Dump().Key(nil)
	return res
}

type DetStats struct {
	Logs, Runs int
}

func logsOf(pool [][]string, maxLen int) [][][]string {
	var out [][][]string
	var rec func(cur [][]string)
	rec = func(cur [][]string) {
		if len(cur) > 0 {
			out = append(out, append([][]string(nil), cur...))
		}
		if len(cur) == maxLen {
			return
		}
		for _, c := range pool {
			rec(append(cur, c))
		}
	}
	rec(nil)
	return out
}

// RunDeterminism on one policy; engines[0] with the canonical variation is the reference.
func RunDeterminism(col *ev.Collector, engines []string, polName string, pol common.ExpirationPolicy, ver common.DataVersionT, maxLen int, dl ev.Deadline) (st DetStats, complete bool) {
	stores := map[string]map[bool]*storemc.Store{}
	for _, e := range engines {
		stores[e] = map[bool]*storemc.Store{
			true:  storemc.Open(storemc.Options{Engine: e, Policy: pol, DataVer: ver, Leader: true}),
			false: storemc.Open(storemc.Options{Engine: e, Policy: pol, DataVer: ver, Leader: false}),
		}
	}
	defer func() {
		for _, m := range stores {
			for _, s := range m {
				s.Destroy()
			}
		}
		SetClock(0, 0)
	}()
	report := func(sig, what string, replay map[string]interface{}) {
		col.Add(ev.Violation{Property: "C07", Signature: "C07|" + sig, What: polName + ": " + what, Replay: replay})
	}
	for _, fam := range Families() {
		if only := os.Getenv("VERIF_C07_FAMILY"); only != "" && only != fam.Name {
			continue // debugging aid, never set by a registered command
		}
		famLen := maxLen
		if fam.Name == "ttl-set" || fam.Name == "batch-abort" {
			famLen = maxLen + 1
		}
		for _, log := range logsOf(fam.Pool, famLen) {
			if dl.Hit() {
				return st, false
			}
			st.Logs++
			n := len(log)
			for tsName, ts := range tsPatterns {
				if n == 1 && tsName != "+1ns" {
					continue
				}
				// a read clock after everything that can expire inside the log has expired or not: two clocks
				readClocks := []int64{0}
				if fam.Name == "ttl" {
					readClocks = []int64{0, 1, 3}
				}
				for _, readClock := range readClocks {
					ref := execLog(stores[engines[0]][true], fam, log, ts, ^uint(0), false, 0, readClock)
					st.Runs++
					// restarted between entry k and k+1 (the tail applied live or as a replay); the HyperLogLog family is
					// left out: its write cache reaches the engine at a graceful close or a checkpoint only (C06/C14)
					for k := 0; k+1 < n && fam.Name != "hll"; k++ {
						for _, replaying := range []bool{false, true} {
							for _, chunks := range []uint{^uint(0), 1 << uint(n-1)} {
								got := execLogRestart(stores[engines[0]][true], fam, log, ts, chunks, replaying, 0, readClock, k)
								st.Runs++
								vdesc := fmt.Sprintf("engine=%s batches=%b restart-after-entry=%d tail-replaying=%v", engines[0], chunks&(1<<uint(n)-1), k, replaying)
								replay := map[string]interface{}{"family": fam.Name, "log": log, "timestamps": tsName, "variation": vdesc, "policy": polName, "read_clock": readClock}
								if strings.Join(got.replies, "|") != strings.Join(ref.replies, "|") {
									report(fam.Name+"|replies|restart", fmt.Sprintf("log %v (timestamps %s): replies %v under {%s}, canonical run answered %v", log, tsName, got.replies, vdesc, ref.replies), replay)
								}
								if got.view != ref.view {
									report(fam.Name+"|data|restart", fmt.Sprintf("log %v (timestamps %s), read at clock %d: data {%s} under {%s}, canonical run holds {%s}", log, tsName, readClock, got.view, vdesc, ref.view), replay)
								}
								if got.physical != ref.physical {
									report(fam.Name+"|stored-bytes|restart", fmt.Sprintf("log %v (timestamps %s): stored bytes differ under {%s} although the same log was applied", log, tsName, vdesc), replay)
								}
							}
						}
					}
					for _, eng := range engines {
						var engRef *runResult
						for chunks := uint(0); chunks < 1<<uint(n-1); chunks++ {
							for _, replaying := range []bool{false, true} {
								for _, leader := range []bool{true, false} {
									for _, off := range []int64{0, 1000000, -1000000} {
										if eng == engines[0] && chunks == 1<<uint(n-1)-1 && !replaying && leader && off == 0 {
											continue // the canonical run itself
										}
										if eng != engines[0] && (off != 0 && (replaying || !leader)) {
											continue // second engine: fewer combinations
										}
										got := execLog(stores[eng][leader], fam, log, ts, chunks|1<<uint(n-1), replaying, off, readClock)
										st.Runs++
										vdesc := fmt.Sprintf("engine=%s batches=%b replaying=%v leader=%v wall-clock-offset=%+ds", eng, chunks|1<<uint(n-1), replaying, leader, off)
										replay := map[string]interface{}{"family": fam.Name, "log": log, "timestamps": tsName, "variation": vdesc, "policy": polName, "read_clock": readClock}
										if leader && strings.Join(got.replies, "|") != strings.Join(ref.replies, "|") {
											report(fam.Name+"|replies|"+variationKind(eng != engines[0], chunks != 1<<uint(n-1)-1, replaying, off != 0, false), fmt.Sprintf("log %v (timestamps %s): replies %v under {%s}, canonical run answered %v", log, tsName, got.replies, vdesc, ref.replies), replay)
										}
										if got.view != ref.view {
											report(fam.Name+"|data|"+variationKind(eng != engines[0], chunks != 1<<uint(n-1)-1, replaying, off != 0, !leader), fmt.Sprintf("log %v (timestamps %s), read at clock %d: data {%s} under {%s}, canonical run holds {%s}", log, tsName, readClock, got.view, vdesc, ref.view), replay)
										}
										if eng == engines[0] {
											if got.physical != ref.physical {
												report(fam.Name+"|stored-bytes|"+variationKind(false, chunks != 1<<uint(n-1)-1, replaying, off != 0, !leader), fmt.Sprintf("log %v (timestamps %s): stored bytes differ under {%s} although the same log was applied", log, tsName, vdesc), replay)
											}
										} else {
											if engRef == nil {
												engRef = &got
											} else if got.physical != engRef.physical {
												report(fam.Name+"|stored-bytes|"+variationKind(false, true, replaying, off != 0, !leader), fmt.Sprintf("log %v (timestamps %s): stored bytes on %s differ between variations {%s}", log, tsName, eng, vdesc), replay)
											}
										}
									}
								}
							}
						}
					}
				}
			}
		}
	}
	return st, true
}

func variationKind(engine, batching, replaying, clock, follower bool) string {
	var k []string
	if engine {
		k = append(k, "engine")
	}
	if batching {
		k = append(k, "batching")
	}
	if replaying {
		k = append(k, "replay")
	}
	if clock {
		k = append(k, "wall-clock")
	}
	if follower {
		k = append(k, "follower")
	}
	if len(k) == 0 {
		return "none"
	}
	return strings.Join(k, "+")
}
