// raftmc: explicit-state model checking of the real raft implementation (C01, C02, C03).
package main

import (
	"encoding/json"
	"flag"
	"fmt"
	"os"
	"runtime"
	"runtime/debug"
	"time"

	"github.com/youzan/ZanRedisDB/raft"
	"zmc/ev"
	"zmc/raftmc"
)

func prodCfg(name string, n int) raftmc.Config {
	return raftmc.Config{Name: name, N: n, PreVote: true, CheckQuorum: true, Storage: "mem", UseTick: true, UseTimeout: true}
}

func searches(prop, tier string) []raftmc.Search {
	var out []raftmc.Search
	add := func(c raftmc.Config, seed string, depth int) {
		out = append(out, raftmc.Search{Cfg: c, Seed: seed, Depth: depth})
	}
	q := tier == "quick"
	d := func(quick, thorough int) int {
		if q {
			return quick
		}
		return thorough
	}
	switch prop {
	case "C01":
		// (a) election core: timeouts + deliveries + crash/restart, no other noise → deepest
		for _, fl := range [][2]bool{{false, false}, {true, true}, {true, false}, {false, true}} {
			c := raftmc.Config{Name: "core", N: 3, PreVote: fl[0], CheckQuorum: fl[1], Storage: "mem", UseTimeout: true}
			c.MaxCrash = 1
			prod := fl[0] && fl[1]
			none := !fl[0] && !fl[1]
			switch {
			case none:
				add(c, "fresh", d(8, 9))
			case prod:
				add(c, "fresh", d(9, 10))
			default:
				add(c, "fresh", d(7, 9))
			}
			c.Name = "core+dup"
			c.MaxCrash, c.MaxDup = 0, 1
			if none || prod {
				add(c, "fresh", d(7, 9))
			}
		}
		// (b) single ticks (lease, check-quorum, heartbeats) from an elected leader
		base := prodCfg("ticks", 3)
		base.UseTimeout = false
		base.MaxCrash, base.MaxProp = 1, 1
		add(base, "leader", d(7, 9))
		add(base, "lagging", d(6, 8))
		nf := base
		nf.PreVote = false
		add(nf, "leader", d(7, 9))
		// (b2) a vote granted as the only change of the hard state (no term or commit change), then a crash
		sv := raftmc.Config{Name: "vote-only-change", N: 3, CheckQuorum: true, Storage: "mem"}
		sv.MaxCrash = 1
		add(sv, "stepped-down-novote", d(8, 10))
		// (b3) a split election: late answers of the pre-vote round meet real candidates
		sp := raftmc.Config{Name: "split-election", N: 3, PreVote: true, CheckQuorum: true, Storage: "mem"}
		add(sp, "two-precandidates", d(10, 12))
		// (c) membership: spare voter / learner, conf changes
		for _, sp := range []string{"voter", "learner"} {
			c := raftmc.Config{Name: "conf-" + sp, N: 3, Spare: sp, PreVote: true, CheckQuorum: true, Storage: "mem", UseTimeout: true, UseTick: true}
			c.MaxConf = 2
			add(c, "leader", d(6, 8))
			add(c, "conf-inflight", d(6, 8))
			if sp == "learner" {
				c.MaxConf = 1
				c.UseTick = false
				add(c, "learner-added", d(7, 9))
				c.PreVote, c.CheckQuorum = false, false
				add(c, "learner-added", d(7, 9))
				// a learner (or a voter) that compacted its log restarts from a snapshot whose membership lists the
				// learner: the role must come back as it was persisted
				lr := c
				lr.Name = "learner-restart"
				lr.MaxConf, lr.MaxCompact, lr.MaxCrash = 0, 1, 1
				add(lr, "learner-added", d(6, 8))
				lr.PreVote, lr.CheckQuorum = true, true
				add(lr, "learner-added", d(6, 8))
			}
			c2 := raftmc.Config{Name: "conf2-" + sp, N: 2, Spare: sp, PreVote: true, CheckQuorum: true, Storage: "mem", UseTimeout: true, UseTick: true}
			c2.MaxConf, c2.MaxCrash = 2, 1
			add(c2, "leader", d(7, 9))
			add(c2, "conf-inflight", d(8, 10))
		}
		// (d) other group sizes
		c1 := prodCfg("n1", 1)
		c1.Spare = "voter"
		c1.MaxConf, c1.MaxCrash, c1.MaxProp = 2, 1, 1
		add(c1, "fresh", d(8, 10))
		c2 := prodCfg("n2", 2)
		c2.MaxCrash, c2.MaxDup = 1, 1
		add(c2, "fresh", d(9, 11))
		cu := raftmc.Config{Name: "uneven-et", N: 3, PreVote: true, CheckQuorum: true, Storage: "mem", UseTick: true, ET: []int{2, 3, 3}}
		cu.MaxCrash = 1
		add(cu, "fresh", d(7, 9))
		if !q {
			for _, n := range []int{4, 5} {
				c := raftmc.Config{Name: fmt.Sprintf("n%d", n), N: n, PreVote: true, CheckQuorum: true, Storage: "mem", UseTimeout: true}
				c.MaxCrash = 1
				add(c, "fresh", 9)
				c.PreVote, c.CheckQuorum = false, false
				add(c, "fresh", 8)
			}
		}
	case "C02":
		// log matching / state machine safety: proposals, compaction + snapshot catch-up, transfer
		core := raftmc.Config{Name: "log", N: 3, PreVote: true, CheckQuorum: true, Storage: "mem", UseTimeout: true, UseTick: true}
		core.MaxProp, core.MaxCompact = 2, 1
		add(core, "leader", d(6, 8))
		add(core, "lagging", d(6, 8))
		add(core, "lagging-compacted", d(7, 9))
		tr := core
		tr.Name = "log+transfer"
		tr.MaxTransfer, tr.MaxCompact, tr.MaxProp = 1, 0, 1
		add(tr, "leader2", d(6, 8))
		one := core
		one.Name = "one-entry-pages"
		one.MaxSizeOne = true
		one.UseTick = false
		add(one, "lagging", d(7, 9))
		add(one, "lagging-compacted", d(7, 9))
		// entries of different sizes under a 100 byte page limit: a page cut inside the persisted part of the log
		mx := raftmc.Config{Name: "mixed-sizes", N: 3, PreVote: true, CheckQuorum: true, Storage: "mem", UseTick: true, MixedSizes: true}
		mx.MaxProp, mx.MaxUnreach = 1, 1
		add(mx, "lagging", d(5, 8))
		add(mx, "leader2", d(5, 8))
		// a snapshot and the append that follows it stepped together: one Ready carries both
		sp := raftmc.Config{Name: "snap+append", N: 3, PreVote: true, CheckQuorum: true, Storage: "mem", UseTick: true, EarlySnapReport: true}
		sp.MaxPair, sp.MaxProp = 1, 1
		add(sp, "snap+append-in-flight", d(4, 6))
		// divergent logs: elections by plain timeouts, conflicts and truncation
		dv := raftmc.Config{Name: "divergent", N: 3, Storage: "mem", UseTimeout: true, MaxSizeOne: true, MaxTerm: 6}
		dv.MaxProp = 1
		add(dv, "divergent", d(8, 10))
		dv2 := dv
		dv2.MaxSizeOne = false
		dv2.MaxCrash = 1
		add(dv2, "divergent", d(7, 9))
		sl := dv
		sl.Name = "stale-long"
		sl.MaxSizeOne = false
		add(sl, "stale-long", d(8, 10))
		nf := raftmc.Config{Name: "noprevote", N: 3, Storage: "mem", UseTimeout: true}
		nf.MaxProp, nf.MaxDup = 2, 1
		add(nf, "leader", d(7, 9))
		add(nf, "lagging", d(6, 8))
		cr := core
		cr.Name = "log+crash"
		cr.MaxCrash, cr.UseTick = 1, false
		add(cr, "leader2", d(6, 8))
		add(cr, "lagging-compacted", d(6, 8))
		rk := core
		rk.Name = "rocks-storage"
		rk.Storage = "rocks"
		rk.UseTick = false
		add(rk, "lagging", d(5, 7))
		add(rk, "lagging-compacted", d(6, 7))
		rd := dv
		rd.Name = "rocks-divergent"
		rd.Storage = "rocks"
		add(rd, "divergent", d(7, 8))
		// a split election followed by proposals: two replicas that both believe they lead one term
		// would commit different entries at one index
		se := raftmc.Config{Name: "split-election+log", N: 3, PreVote: true, CheckQuorum: true, Storage: "mem", MaxSizeOne: true}
		se.MaxProp = 2
		if !q {
			add(se, "two-precandidates", 14) // 1.7 million states at depth 13: thorough tier only
		}
		cf := raftmc.Config{Name: "log+conf", N: 3, Spare: "voter", PreVote: true, CheckQuorum: true, Storage: "mem", UseTimeout: true}
		cf.MaxProp, cf.MaxConf, cf.MaxCompact = 1, 1, 1
		add(cf, "leader2", d(6, 8))
	case "C03":
		for _, stg := range []string{"mem", "rocks"} {
			modes := []int{raftmc.CrashP, raftmc.CrashL}
			if !q {
				modes = []int{raftmc.CrashP, raftmc.CrashE, raftmc.CrashL}
			}
			// elections with crashes (votes must survive)
			el := raftmc.Config{Name: "crash-election-" + stg, N: 3, Storage: stg, UseTimeout: true}
			el.MaxCrash = 2
			if stg == "rocks" {
				add(el, "fresh", d(7, 8))
			} else {
				add(el, "fresh", d(8, 9))
			}
			el.PreVote, el.CheckQuorum = true, true
			el.CrashModes = modes
			el.MaxCrash = 1
			add(el, "fresh", d(7, 9))
			// replication with crashes in the middle of a step
			base := raftmc.Config{Name: "crash-step-" + stg, N: 3, PreVote: true, CheckQuorum: true, Storage: stg, UseTimeout: true}
			base.MaxCrash, base.MaxProp = 2, 1
			base.CrashModes = modes
			add(base, "leader", d(5, 7))
			add(base, "leader2", d(5, 6))
			add(base, "lagging", d(5, 6))
			all := base
			all.Name = "crash-all-" + stg
			all.MaxCrash = 3
			all.CrashModes = nil
			add(all, "leader2", d(6, 8))
			cp := base
			cp.Name = "crash+compact-" + stg
			cp.MaxCompact = 1
			cp.MaxCrash = 1
			add(cp, "lagging-compacted", d(6, 7))
			dv := raftmc.Config{Name: "crash-divergent-" + stg, N: 3, Storage: stg, UseTimeout: true, MaxTerm: 6}
			dv.MaxCrash = 1
			dv.CrashModes = []int{raftmc.CrashP}
			add(dv, "divergent", d(6, 8))
			add(dv, "stale-long", d(6, 8))
			if stg == "mem" {
				// leader completeness on divergent logs without crashes: the deepest log-safety search
				dn := raftmc.Config{Name: "divergent", N: 3, Storage: stg, UseTimeout: true, MaxSizeOne: true, MaxTerm: 6}
				add(dn, "divergent", d(9, 11))
				dn.MaxSizeOne = false
				add(dn, "stale-long", d(8, 10))
			}
		}
		// a vote granted as the only change of the hard state, then a restart: both candidates of the term
		// ask the restarted voter; two proposals are enough to make two leaders commit different entries
		vr := raftmc.Config{Name: "vote-survives-restart", N: 3, CheckQuorum: true, Storage: "mem"}
		vr.MaxProp = 2
		add(vr, "voted-then-restarted", d(12, 14))
		n2 := raftmc.Config{Name: "crash-n2", N: 2, PreVote: true, CheckQuorum: true, Storage: "mem", UseTimeout: true, UseTick: true}
		n2.MaxCrash, n2.MaxProp = 2, 1
		n2.CrashModes = []int{raftmc.CrashP, raftmc.CrashL}
		add(n2, "leader", d(6, 8))
	}
	return out
}

func main() {
	debug.SetGCPercent(800)
	prop := flag.String("prop", "C01", "property")
	tier := flag.String("tier", "quick", "quick|thorough")
	replay := flag.String("replay", "", "replay file")
	only := flag.Int("only", -1, "run only search #i")
	list := flag.String("list", "", "use the search list of another property (debugging)")
	draw := flag.Int("draw", 0, "constant randomized-election-timeout draw (0|1)")
	flag.Parse()
	raft.VerifSetRandDraw(*draw)
	if *replay != "" {
		os.Exit(doReplay(*prop, *replay))
	}
	budget := ev.EnvDur("VERIF_BUDGET", map[string]time.Duration{"quick": 600 * time.Second, "thorough": 20 * time.Minute}[*tier])
	start := time.Now()
	col := ev.NewCollector(*prop, *tier, "model_checking")
	if *list == "" {
		*list = *prop
	}
	ss := searches(*list, *tier)
	workers := runtime.NumCPU()
	var states, trans, rchecks uint64
	var per []interface{}
	exhaustive := true
	obsTotal := map[string]int{}
	for i, s := range ss {
		if *only >= 0 && i != *only {
			continue
		}
		// every search gets an equal share of what is left
		left := budget - time.Since(start)
		share := left / time.Duration(len(ss)-i)
		if share < 2*time.Second {
			share = 2 * time.Second
		}
		if *tier == "quick" {
			// depths are tuned to finish well inside the budget (2-4 min in all); on a loaded machine one slow search
			// must not starve the ones after it: at most four equal shares of what is left for any single search
			share *= 4
			if share < 20*time.Second {
				share = 20 * time.Second
			}
			if share > left {
				share = left
			}
		}
		res, err := raftmc.RunSearch(s, *prop, workers, time.Now().Add(share), col)
		if err != nil {
			fmt.Println("INFRA:", err, "in", s.Label())
			os.Exit(2)
		}
		states += res.States
		trans += res.Transitions
		rchecks += res.ReplayChecks
		if res.DeadlineHit {
			exhaustive = false
		}
		for k, v := range res.Obs {
			obsTotal[k] += v
		}
		per = append(per, map[string]interface{}{"search": res.Label, "states": res.States, "transitions": res.Transitions,
			"completed_depth": res.CompletedDepth, "frontier_per_level": res.Levels, "deadline_hit": res.DeadlineHit,
			"fixpoint": res.Exhaustive, "wall_s": res.WallS, "violating_states": len(res.Found)})
		fmt.Printf("[%s #%d] %s: states=%d transitions=%d depth=%d/%d deadline=%v found=%d %.1fs\n", *prop, i, res.Label, res.States, res.Transitions, res.CompletedDepth, s.Depth, res.DeadlineHit, len(res.Found), res.WallS)
	}
	// samples: explained traces of the first seeds
	for i, s := range ss {
		if i >= 2 {
			break
		}
		cfg := s.Cfg
		col.Sample(map[string]interface{}{"search": s.Label(), "seed_trace": raftmc.Explain(&cfg, raftmc.Seed(&cfg, s.Seed))})
	}
	col.Set("states", int(states))
	col.Set("transitions", int(trans))
	col.Set("traces_validated_against_impl", int(trans))
	col.Set("determinism_replay_checks", int(rchecks))
	col.Set("exhaustive", exhaustive)
	col.Set("searches", per)
	col.Set("observations", obsTotal)
	col.Set("rule", "explicit-state BFS over event paths executed on real raft.Node objects; state = canonical hash of reflective dump of every replica + storage + network multiset + budgets + oracle history; every transition is a call into the implementation")
	col.Set("bounds", "per search: depth and fault budgets as listed in 'searches'; exhaustive=true means every listed search completed its depth bound (not a fixpoint)")
	col.Assume = []string{"election-timeout randomisation replaced by a constant draw (ticks per replica are free events, so relative timing stays adversarial)",
		"single-threaded driving of raft.Node (StepNode/Advance) as node/raft.go does from one goroutine",
		"message payload integrity (codec is C16)"}
	// vacuity guard
	if obsTotal["states-whose-path-had:leader-seen"] == 0 && col.NumViolationSigs() == 0 {
		fmt.Println("INFRA: vacuous exploration (no state with a leader)")
		col.Finish()
		os.Exit(2)
	}
	os.Exit(col.Finish())
}

func doReplay(prop, file string) int {
	b, err := os.ReadFile(file)
	if err != nil {
		fmt.Println("INFRA:", err)
		return 2
	}
	var v struct {
		Property string
		Replay   raftmc.Replay
	}
	if err := json.Unmarshal(b, &v); err != nil {
		fmt.Println("INFRA:", err)
		return 2
	}
	for _, l := range raftmc.Explain(&v.Replay.Cfg, v.Replay.Path) {
		fmt.Println(l)
	}
	bad := raftmc.RunReplay(v.Replay)
	for _, x := range bad {
		if x.Property == prop {
			fmt.Printf("VIOLATION property=%s replay=%s\n", prop, file)
			return 1
		}
	}
	fmt.Println("replay: property held")
	return 0
}
