// enginemc: C20 — all storage engines against a sorted-map reference.
package main

import (
	"encoding/json"
	"flag"
	"fmt"
	"os"
	"strings"
	"time"

	"github.com/youzan/ZanRedisDB/engine"
	"zmc/enginemc"
	"zmc/ev"
)

func main() {
	tier := flag.String("tier", "quick", "")
	engs := flag.String("engines", "", "comma list (default per tier)")
	replay := flag.String("replay", "", "")
	flag.Parse()
	engine.SetLogLevel(-1)
	if *replay != "" {
		os.Exit(doReplay(*replay))
	}
	quick := *tier == "quick"
	list := []string{"mem-skiplist", "mem-radix", "mem-btree", "pebble"}
	// rocksdb is not in the list: with the fixed 3-byte prefix extractor the store configures, an unbounded
	// iterator (what the reference dump needs) is not a total-order scan, so the comparison would not be sound
	// (DESIGN.md 9.1 C20); `-engines rocksdb` remains for experiments only
	if *engs != "" {
		list = strings.Split(*engs, ",")
	}
	col := ev.NewCollector("C20", *tier, "model_checking")
	dl := ev.NewDeadline(ev.EnvDur("VERIF_BUDGET", map[bool]time.Duration{true: 150 * time.Second, false: 20 * time.Minute}[quick]))
	exhaustive := true
	var states, trans int
	per := map[string]interface{}{}
	for _, name := range list {
		spec := enginemc.Engines[name]
		t0 := time.Now()
		a, okA := enginemc.PartA(spec, col, name == "rocksdb", quick, dl)
		depth := 4
		if quick {
			depth = 3
		}
		b, reached, okB := enginemc.PartB(spec, col, depth, dl)
		starts := reached
		if quick && len(starts) > 40 {
			starts = starts[:40]
		}
		c, okC := enginemc.PartC(spec, col, starts, dl)
		if !okA || !okC {
			exhaustive = false
		}
		_ = okB
		states += a.IterStates + b.BatchStates
		trans += a.IterCases + b.BatchTransitions + c.BatchTransitions
		per[name] = map[string]interface{}{"iterator_states": a.IterStates, "iterator_cases": a.IterCases, "point_reads": a.PointReads, "iterator_mismatches": a.Mismatch,
			"batch_states": b.BatchStates, "batch_transitions": b.BatchTransitions, "batch_fixpoint": okB, "pair_batches": c.BatchTransitions, "batch_mismatches": b.Mismatch + c.Mismatch,
			"wall_s": time.Since(t0).Seconds()}
		fmt.Printf("[C20] %s: iter states=%d cases=%d mismatches=%d | batch states=%d transitions=%d fixpoint=%v pairs=%d mismatches=%d | %.1fs\n", name, a.IterStates, a.IterCases, a.Mismatch, b.BatchStates, b.BatchTransitions, okB, c.BatchTransitions, b.Mismatch+c.Mismatch, time.Since(t0).Seconds())
	}
	col.Set("states", states)
	col.Set("transitions", trans)
	col.Set("traces_validated_against_impl", trans)
	col.Set("exhaustive", exhaustive)
	col.Set("per_engine", per)
	col.Set("rule", "state = store content over an adversarial key universe under one 3-byte prefix (+ decoys outside); transitions = iterator option combinations (read-only) and write batches, each executed on the real engine and compared with a sorted-map reference")
	col.Sample(map[string]interface{}{"universe": fmt.Sprintf("%q", enginemc.Universe), "decoys": fmt.Sprintf("%q", enginemc.Decoys), "iterator_case": "min × max ∈ universe∪{nil, below, above} × {closed,lopen,ropen,open} × {forward,reverse} × offset × count"})
	col.Sample(map[string]interface{}{"batch_alphabet": fmt.Sprintf("%v", enginemc.Alphabet())})
	col.Assume = []string{"sequential access only (atomic visibility to concurrent readers inside third-party engines is not under the scheduler)",
		"rocksdb (thorough only) is the sandbox's stock librocksdb 7.8, not production's fork; compared inside one 3-byte prefix with non-nil bounds"}
	os.Exit(col.Finish())
}

func doReplay(file string) int {
	b, err := os.ReadFile(file)
	if err != nil {
		fmt.Println("INFRA:", err)
		return 2
	}
	var v ev.Violation
	json.Unmarshal(b, &v)
	fmt.Println(v.What)
	fmt.Println("replay of C20 cases: re-run `check C20 quick`; the case is fully described above (engine, state, options)")
	return 1
}
