// Package coordmc: C18 — BFS over (partition replica metadata, live node set, sync answers,
// actual raft membership) with the placement driver's real decision procedures as
// transitions, against an in-memory register and scripted data-node HTTP answers.
package coordmc

import (
	"encoding/json"
	"fmt"
	"net"
	"net/http"
	"sort"
	"strconv"
	"strings"
	"sync"
	"time"

	"github.com/youzan/ZanRedisDB/cluster"
	pd "github.com/youzan/ZanRedisDB/cluster/pdnode_coord"
	"github.com/youzan/ZanRedisDB/common"
	"zmc/ev"
)

const NS = "test"

// ---- fake data nodes (loopback listeners, answers scripted by the explorer) ----------------

type Env struct {
	mu      sync.Mutex
	Up      map[string]bool   // node id -> reachable
	Synced  map[string]bool   // node id -> answers israftsynced with 200
	Members map[uint64]uint64 // reg id -> raft replica id really in the raft group
	Probes  int
}

type Nodes struct {
	IDs   []string // index i -> node id
	RegID map[string]uint64
	env   *Env
	srvs  []*http.Server
}

func StartNodes(n int) *Nodes {
	ns := &Nodes{RegID: map[string]uint64{}, env: &Env{}}
	for i := 0; i < n; i++ {
		l, err := net.Listen("tcp", "127.0.0.1:0")
		if err != nil {
			panic(err)
		}
		port := l.Addr().(*net.TCPAddr).Port
		reg := uint64(i + 1)
		info := &cluster.NodeInfo{RegID: reg, NodeIP: "127.0.0.1", RedisPort: strconv.Itoa(10000 + i), HttpPort: strconv.Itoa(port)}
		id := cluster.GenNodeID(info, "")
		ns.IDs = append(ns.IDs, id)
		ns.RegID[id] = reg
		mux := http.NewServeMux()
		nid := id
		mux.HandleFunc(common.APIGetMembers+"/", func(w http.ResponseWriter, r *http.Request) {
			e := ns.env
			e.mu.Lock()
			defer e.mu.Unlock()
			e.Probes++
			if !e.Up[nid] {
				http.Error(w, "down", 503)
				return
			}
			var ms []*common.MemberInfo
			regs := make([]uint64, 0, len(e.Members))
			for r := range e.Members {
				regs = append(regs, r)
			}
			sort.Slice(regs, func(i, j int) bool { return regs[i] < regs[j] })
			for _, r := range regs {
				ms = append(ms, &common.MemberInfo{ID: e.Members[r], NodeID: r})
			}
			json.NewEncoder(w).Encode(ms)
		})
		mux.HandleFunc(common.APIIsRaftSynced+"/", func(w http.ResponseWriter, r *http.Request) {
			e := ns.env
			e.mu.Lock()
			defer e.mu.Unlock()
			e.Probes++
			if !e.Up[nid] || !e.Synced[nid] {
				http.Error(w, "not synced", 500)
				return
			}
			w.WriteHeader(200)
		})
		srv := &http.Server{Handler: mux}
		srv.SetKeepAlivesEnabled(false)
		ns.srvs = append(ns.srvs, srv)
		go srv.Serve(l)
	}
	return ns
}

func (n *Nodes) Stop() {
	for _, s := range n.srvs {
		s.Close()
	}
}

// ---- in-memory register -------------------------------------------------------------------

type Write struct {
	Before, After cluster.PartitionReplicaInfo
	OldGen        cluster.EpochType
	CASOk         bool
}

type Reg struct {
	mu      sync.Mutex
	Meta    cluster.NamespaceMetaInfo
	Replica cluster.PartitionReplicaInfo
	Epoch   cluster.EpochType
	Writes  []Write
}

func (r *Reg) part() cluster.PartitionMetaInfo {
	p := cluster.PartitionMetaInfo{Name: NS, Partition: 0}
	p.NamespaceMetaInfo = r.Meta.DeepClone()
	p.PartitionReplicaInfo = r.Replica.DeepClone()
	cluster.VerifSetReplicaEpoch(&p.PartitionReplicaInfo, r.Epoch)
	return p
}

func (r *Reg) InitClusterID(id string)                      {}
func (r *Reg) Start()                                       {}
func (r *Reg) Stop()                                        {}
func (r *Reg) GetAllPDNodes() ([]cluster.NodeInfo, error)   { return nil, nil }
func (r *Reg) GetNamespacesNotifyChan() chan struct{}       { return make(chan struct{}) }
func (r *Reg) SaveKV(key string, value string) error        { return nil }
func (r *Reg) GetKV(key string) (string, error)             { return "", cluster.ErrKeyNotFound }
func (r *Reg) Register(nodeData *cluster.NodeInfo) error    { return nil }
func (r *Reg) Unregister(nodeData *cluster.NodeInfo) error  { return nil }
func (r *Reg) GetClusterEpoch() (cluster.EpochType, error)  { return 1, nil }
func (r *Reg) GetDataNodes() ([]cluster.NodeInfo, error)    { return nil, nil }
func (r *Reg) PrepareNamespaceMinGID() (int64, error)       { return 0, nil }
func (r *Reg) IsExistNamespace(ns string) (bool, error)     { return ns == NS, nil }
func (r *Reg) DeleteWholeNamespace(ns string) error         { return nil }
func (r *Reg) DeleteNamespacePart(ns string, p int) error   { return nil }
func (r *Reg) CreateNamespacePartition(ns string, p int) error { return nil }
func (r *Reg) GetClusterMetaInfo() (cluster.ClusterMetaInfo, error) {
	return cluster.ClusterMetaInfo{}, nil
}
func (r *Reg) AcquireAndWatchLeader(leader chan *cluster.NodeInfo, stop chan struct{}) {}
func (r *Reg) WatchDataNodes(nodeC chan []cluster.NodeInfo, stopC chan struct{})       {}
func (r *Reg) CreateNamespace(ns string, meta *cluster.NamespaceMetaInfo) error        { return nil }
func (r *Reg) UpdateNamespaceMetaInfo(ns string, meta *cluster.NamespaceMetaInfo, oldGen cluster.EpochType) error {
	return nil
}
func (r *Reg) IsExistNamespacePartition(ns string, p int) (bool, error) { return ns == NS && p == 0, nil }
func (r *Reg) UpdateNamespaceSchema(ns string, table string, schema *cluster.SchemaInfo) error {
	return nil
}
func (r *Reg) GetNamespaceSchemas(ns string) (map[string]cluster.SchemaInfo, error) {
	return nil, cluster.ErrKeyNotFound
}
func (r *Reg) GetNamespaceTableSchema(ns string, table string) (*cluster.SchemaInfo, error) {
	return nil, cluster.ErrKeyNotFound
}
func (r *Reg) GetNamespaceMetaInfo(ns string) (cluster.NamespaceMetaInfo, error) {
	return r.Meta.DeepClone(), nil
}
func (r *Reg) GetNamespacePartInfo(ns string, partition int) (*cluster.PartitionMetaInfo, error) {
	r.mu.Lock()
	defer r.mu.Unlock()
	p := r.part()
	return &p, nil
}
func (r *Reg) GetRemoteNamespaceReplicaInfo(ns string, partition int) (*cluster.PartitionReplicaInfo, error) {
	r.mu.Lock()
	defer r.mu.Unlock()
	p := r.part()
	return &p.PartitionReplicaInfo, nil
}
func (r *Reg) GetNamespaceInfo(ns string) ([]cluster.PartitionMetaInfo, error) {
	r.mu.Lock()
	defer r.mu.Unlock()
	return []cluster.PartitionMetaInfo{r.part()}, nil
}
func (r *Reg) GetAllNamespaces() (map[string]map[int]cluster.PartitionMetaInfo, cluster.EpochType, error) {
	r.mu.Lock()
	defer r.mu.Unlock()
	return map[string]map[int]cluster.PartitionMetaInfo{NS: {0: r.part()}}, r.Epoch, nil
}
func (r *Reg) UpdateNamespacePartReplicaInfo(ns string, partition int, info *cluster.PartitionReplicaInfo, oldGen cluster.EpochType) error {
	r.mu.Lock()
	defer r.mu.Unlock()
	w := Write{Before: r.Replica.DeepClone(), After: info.DeepClone(), OldGen: oldGen, CASOk: oldGen == r.Epoch}
	r.Writes = append(r.Writes, w)
	if !w.CASOk {
		return fmt.Errorf("compare-and-swap failed: epoch %d, current %d", oldGen, r.Epoch)
	}
	r.Replica = info.DeepClone()
	r.Epoch++
	cluster.VerifSetReplicaEpoch(info, r.Epoch)
	return nil
}

var _ cluster.PDRegister = (*Reg)(nil)

// ---- explicit state ---------------------------------------------------------------------------

type State struct {
	Downs, Flips int // fault budgets used
	OpRemoves    int // operator removals requested
	Replica  cluster.PartitionReplicaInfo
	Live     []bool // per node index
	Synced   []bool
	Members  map[int]uint64 // node index -> raft id really joined
	Waiting  bool           // the checker already noted the partition as failing once
	UsedIDs  map[uint64]int // raft id -> node index it was given to (history variable)
	Path     []string
}

func (s *State) clone() *State {
	n := &State{Downs: s.Downs, Flips: s.Flips, OpRemoves: s.OpRemoves, Replica: s.Replica.DeepClone(), Live: append([]bool(nil), s.Live...), Synced: append([]bool(nil), s.Synced...), Members: map[int]uint64{}, Waiting: s.Waiting, UsedIDs: map[uint64]int{}}
	for k, v := range s.Members {
		n.Members[k] = v
	}
	for k, v := range s.UsedIDs {
		n.UsedIDs[k] = v
	}
	n.Path = append([]string(nil), s.Path...)
	return n
}

func (s *State) key(nodes *Nodes) string {
	var sb strings.Builder
	idx := func(id string) int {
		for i, x := range nodes.IDs {
			if x == id {
				return i
			}
		}
		return -1
	}
	for _, n := range s.Replica.RaftNodes {
		fmt.Fprintf(&sb, "%d:%d,", idx(n), s.Replica.RaftIDs[n])
	}
	sb.WriteString("|rm:")
	var rm []int
	for n := range s.Replica.Removings {
		rm = append(rm, idx(n))
	}
	sort.Ints(rm)
	fmt.Fprintf(&sb, "%v|max:%d|live:%v|sync:%v|w:%v|b:%d,%d,%d|m:", rm, s.Replica.MaxRaftID, s.Live, s.Synced, s.Waiting, s.Downs, s.Flips, s.OpRemoves)
	var ms []int
	for n := range s.Members {
		ms = append(ms, n)
	}
	sort.Ints(ms)
	for _, n := range ms {
		fmt.Fprintf(&sb, "%d=%d,", n, s.Members[n])
	}
	var ids []int
	for id := range s.UsedIDs {
		ids = append(ids, int(id))
	}
	sort.Ints(ids)
	sb.WriteString("|used:")
	for _, id := range ids {
		fmt.Fprintf(&sb, "%d>%d,", id, s.UsedIDs[uint64(id)])
	}
	return sb.String()
}

type Stats struct {
	States, Transitions, Writes, Probes int
	WritesByKind                        map[string]int
}

// Run explores one configuration (replica factor, node count) by BFS.
const maxDowns, maxFlips, maxOpRemoves = 2, 1, 2

// Seeds: start from non-initial states too. Each is a path of environment events applied to
// the initial state before the search starts (coordinator writes are never fabricated).
var Seeds = map[string][]string{
	"fresh":           nil,
	"one-replica-down": {"down 0"},
	"two-replicas-down": {"down 0", "down 1"},
	"unsynced-replica":  {"sync-flip 1"},
}

func Run(col *ev.Collector, nodes *Nodes, replica, nNodes, depth int, seed string, dl ev.Deadline) (st Stats, complete bool) {
	st.WritesByKind = map[string]int{}
	pd.VerifZeroWaits()
	idxOf := map[string]int{}
	for i, id := range nodes.IDs {
		idxOf[id] = i
	}
	init := &State{Live: make([]bool, nNodes), Synced: make([]bool, nNodes), Members: map[int]uint64{}, UsedIDs: map[uint64]int{}}
	init.Replica.RaftIDs = map[string]uint64{}
	init.Replica.Removings = map[string]cluster.RemovingInfo{}
	for i := 0; i < nNodes; i++ {
		init.Live[i], init.Synced[i] = true, true
	}
	for i := 0; i < replica; i++ {
		id := nodes.IDs[i]
		init.Replica.RaftNodes = append(init.Replica.RaftNodes, id)
		init.Replica.MaxRaftID++
		init.Replica.RaftIDs[id] = uint64(init.Replica.MaxRaftID)
		init.Members[i] = uint64(init.Replica.MaxRaftID)
		init.UsedIDs[uint64(init.Replica.MaxRaftID)] = i
	}
	for _, e := range Seeds[seed] {
		var a int
		switch {
		case strings.HasPrefix(e, "down "):
			fmt.Sscanf(e, "down %d", &a)
			if a < nNodes {
				init.Live[a] = false
			}
		case strings.HasPrefix(e, "sync-flip "):
			fmt.Sscanf(e, "sync-flip %d", &a)
			if a < nNodes {
				init.Synced[a] = false
			}
		}
		init.Path = append(init.Path, e+"(seed)")
	}
	seen := map[string]bool{init.key(nodes): true}
	frontier := []*State{init}
	st.States = 1
	label := fmt.Sprintf("replication %d, %d data nodes, seed %s", replica, nNodes, seed)
	report := func(s *State, evn, sig, what string) {
		col.Add(ev.Violation{Property: "C18", Signature: "C18|" + sig, What: fmt.Sprintf("%s: after %v then %s: %s", label, s.Path, evn, what),
			Replay: map[string]interface{}{"replica": replica, "nodes": nNodes, "path": append(append([]string(nil), s.Path...), evn)}})
	}
	for d := 1; d <= depth && len(frontier) > 0; d++ {
		var next []*State
		for _, s := range frontier {
			if dl.Hit() {
				return st, false
			}
			// enabled events
			var evs []string
			evs = append(evs, "check-round", "balance-add")
			for i := 0; i < nNodes; i++ {
				if s.Live[i] {
					if s.Downs < maxDowns {
						evs = append(evs, fmt.Sprintf("down %d", i))
					}
				} else {
					evs = append(evs, fmt.Sprintf("up %d", i))
				}
				if _, listed := s.Replica.RaftIDs[nodes.IDs[i]]; listed && (s.Flips < maxFlips || !s.Synced[i]) {
					evs = append(evs, fmt.Sprintf("sync-flip %d", i))
				}
			}
			// the operator (or the balancer) asks to take the partition off a node that holds it
			if s.OpRemoves < maxOpRemoves {
				for _, id := range s.Replica.RaftNodes {
					if _, removing := s.Replica.Removings[id]; !removing {
						evs = append(evs, fmt.Sprintf("operator-remove %d", idxOf[id]))
					}
				}
			}
			for _, id := range s.Replica.RaftNodes {
				i := idxOf[id]
				_, removing := s.Replica.Removings[id]
				if _, in := s.Members[i]; !in && !removing && s.Live[i] {
					evs = append(evs, fmt.Sprintf("join %d", i))
				}
			}
			for i := range s.Members {
				id := nodes.IDs[i]
				_, removing := s.Replica.Removings[id]
				_, listed := s.Replica.RaftIDs[id]
				if removing || !listed {
					evs = append(evs, fmt.Sprintf("leave %d", i))
				}
			}
			sort.Strings(evs)
			for _, e := range evs {
				n := s.clone()
				n.Path = append(n.Path, e)
				st.Transitions++
				var a int
				switch {
				case strings.HasPrefix(e, "down "):
					fmt.Sscanf(e, "down %d", &a)
					n.Live[a] = false
					n.Downs++
				case strings.HasPrefix(e, "up "):
					fmt.Sscanf(e, "up %d", &a)
					n.Live[a] = true
				case strings.HasPrefix(e, "sync-flip "):
					fmt.Sscanf(e, "sync-flip %d", &a)
					if n.Synced[a] {
						n.Flips++
					}
					n.Synced[a] = !n.Synced[a]
				case strings.HasPrefix(e, "join "):
					fmt.Sscanf(e, "join %d", &a)
					n.Members[a] = n.Replica.RaftIDs[nodes.IDs[a]]
				case strings.HasPrefix(e, "leave "):
					fmt.Sscanf(e, "leave %d", &a)
					delete(n.Members, a)
				default:
					// coordinator action on a fresh coordinator + register holding the state
					reg := &Reg{Replica: s.Replica.DeepClone(), Epoch: 7}
					reg.Meta = cluster.NamespaceMetaInfo{PartitionNum: 1, Replica: replica}
					env := nodes.env
					env.mu.Lock()
					env.Up, env.Synced, env.Members = map[string]bool{}, map[string]bool{}, map[uint64]uint64{}
					live := map[string]cluster.NodeInfo{}
					for i := 0; i < nNodes; i++ {
						id := nodes.IDs[i]
						env.Up[id], env.Synced[id] = s.Live[i], s.Synced[i]
						if s.Live[i] {
							live[id] = cluster.NodeInfo{ID: id, RegID: nodes.RegID[id], NodeIP: "127.0.0.1"}
						}
					}
					for i, rid := range s.Members {
						env.Members[nodes.RegID[nodes.IDs[i]]] = rid
					}
					p0 := env.Probes
					env.mu.Unlock()
					coord := pd.NewPDCoordinator("verif", &cluster.NodeInfo{NodeIP: "127.0.0.1", HttpPort: "1", RedisPort: "2"}, &cluster.Options{AutoBalanceAndMigrate: true, BalanceVer: pd.BalanceV2Str})
					coord.SetRegister(reg)
					coord.VerifSetDataNodes(live, 1)
					waiting := map[string]map[int]time.Time{}
					if s.Waiting {
						waiting[NS] = map[int]time.Time{0: time.Now().Add(-time.Hour)}
					}
					if e == "check-round" {
						coord.VerifCheckRound(waiting)
						_, n.Waiting = waiting[NS][0]
					} else if strings.HasPrefix(e, "operator-remove ") {
						fmt.Sscanf(e, "operator-remove %d", &a)
						coord.VerifRemoveFromNode(NS, 0, nodes.IDs[a])
						n.OpRemoves++
					} else {
						coord.VerifBalanceAddOnce(NS, 0)
					}
					env.mu.Lock()
					st.Probes += env.Probes - p0
					env.mu.Unlock()
					// ---- oracle on every write to the register
					bad := false
					for _, w := range reg.Writes {
						st.Writes++
						if !w.CASOk {
							report(s, e, "write-with-stale-epoch", fmt.Sprintf("update used epoch %d, the register held %d", w.OldGen, 7))
							bad = true
							continue
						}
						kind := classify(w)
						st.WritesByKind[kind]++
						if msg := checkWrite(w, replica, s, nodes, idxOf); msg != "" {
							report(s, e, kind+"|"+strings.SplitN(msg, ":", 2)[0], msg)
							bad = true
						}
						// history: ids handed out
						for id, rid := range w.After.RaftIDs {
							if _, had := w.Before.RaftIDs[id]; !had {
								n.UsedIDs[rid] = idxOf[id]
							}
						}
					}
					n.Replica = reg.Replica.DeepClone()
					if bad {
						continue // violating states are not expanded
					}
				}
				k := n.key(nodes)
				if !seen[k] {
					seen[k] = true
					st.States++
					next = append(next, n)
				}
			}
		}
		frontier = next
	}
	return st, true
}

func classify(w Write) string {
	switch {
	case len(w.After.RaftNodes) > len(w.Before.RaftNodes):
		return "add-replica"
	case len(w.After.Removings) > len(w.Before.Removings):
		return "mark-removing"
	case len(w.After.RaftNodes) < len(w.Before.RaftNodes):
		return "finish-removal"
	}
	return "other"
}

// checkWrite: the C18 invariants on one metadata write. "" = fine, else "<short>: detail".
func checkWrite(w Write, replica int, s *State, nodes *Nodes, idxOf map[string]int) string {
	a, b := w.After, w.Before
	if len(a.Removings) > 1 {
		return fmt.Sprintf("two-removings: %d replicas marked for removal at once: %v", len(a.Removings), keys(a.Removings))
	}
	seen := map[string]bool{}
	for _, n := range a.RaftNodes {
		if seen[n] {
			return fmt.Sprintf("duplicate-node: node %d listed twice in %v", idxOf[n], idxs(a.RaftNodes, idxOf))
		}
		seen[n] = true
	}
	remaining := len(a.RaftNodes) - len(a.Removings)
	if remaining <= replica/2 {
		return fmt.Sprintf("below-majority: %d remaining replicas (nodes %v, removing %v) is not a strict majority of replication factor %d", remaining, idxs(a.RaftNodes, idxOf), keysIdx(a.Removings, idxOf), replica)
	}
	added := 0
	for _, n := range a.RaftNodes {
		if _, had := b.RaftIDs[n]; !had {
			added++
			rid := a.RaftIDs[n]
			if int64(rid) <= b.MaxRaftID {
				return fmt.Sprintf("raft-id-not-fresh: node %d got raft id %d, MaxRaftID was already %d", idxOf[n], rid, b.MaxRaftID)
			}
			if prev, used := s.UsedIDs[rid]; used {
				return fmt.Sprintf("raft-id-reused: raft id %d given to node %d was used before by node %d", rid, idxOf[n], prev)
			}
			if a.MaxRaftID < int64(rid) {
				return fmt.Sprintf("max-raft-id-behind: MaxRaftID %d after handing out %d", a.MaxRaftID, rid)
			}
		}
	}
	if a.MaxRaftID < b.MaxRaftID {
		return fmt.Sprintf("max-raft-id-decreased: %d -> %d", b.MaxRaftID, a.MaxRaftID)
	}
	if added > 1 {
		return fmt.Sprintf("two-added: %d replicas added in one step", added)
	}
	if added == 1 {
		// only when the current replicas report being in sync
		for _, n := range b.RaftNodes {
			if _, rm := b.Removings[n]; rm {
				continue
			}
			i := idxOf[n]
			if !s.Live[i] || !s.Synced[i] {
				return fmt.Sprintf("added-while-unsynced: replica added while current replica on node %d is live=%v synced=%v", i, s.Live[i], s.Synced[i])
			}
		}
	}
	if len(a.Removings) > len(b.Removings) {
		unreachable := 0
		for _, n := range b.RaftNodes {
			if !s.Live[idxOf[n]] {
				unreachable++
			}
		}
		if 2*unreachable > len(b.RaftNodes) {
			return fmt.Sprintf("removal-marked-without-majority: removal marked while %d of %d replicas are unreachable", unreachable, len(b.RaftNodes))
		}
	}
	return ""
}

func keys(m map[string]cluster.RemovingInfo) []string {
	var o []string
	for k := range m {
		o = append(o, k)
	}
	sort.Strings(o)
	return o
}
func keysIdx(m map[string]cluster.RemovingInfo, idxOf map[string]int) []int {
	var o []int
	for k := range m {
		o = append(o, idxOf[k])
	}
	sort.Ints(o)
	return o
}
func idxs(l []string, idxOf map[string]int) []int {
	var o []int
	for _, k := range l {
		o = append(o, idxOf[k])
	}
	return o
}
