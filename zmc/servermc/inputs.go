package servermc

// placeholders until C11 lands
func ChildMain(spec string)  {}
func RunC11(tier string) int { return 2 }
