//go:build verif

package node

import (
	"github.com/youzan/ZanRedisDB/raft"
	"github.com/youzan/ZanRedisDB/raft/raftpb"
	"github.com/youzan/ZanRedisDB/transport/rafthttp"
)

// VerifSetTransport replaces the raft transport of a node that is not started yet (C04: the
// explorer owns message delivery).
func VerifSetTransport(nd *KVNode, t rafthttp.Transporter) { nd.rn.transport = t }

// VerifQueues: pending raft events and pending apply batches.
func VerifQueues(nd *KVNode) (int, int) {
	return len(nd.rn.node.EventNotifyCh()), len(nd.commitC)
}

// VerifRaftView: the raft state read in place (only meaningful while the raft loop is idle).
func VerifRaftView(nd *KVNode) raft.VerifView { return raft.VerifNodeView(nd.rn.node) }

// VerifReconcileHardState is the reconciliation replayWAL applies to the stored hard state before it is
// handed to raft (raftmc restarts a replica from its storage object and has to do what replayWAL does).
func VerifReconcileHardState(st *raftpb.HardState, snapshot *raftpb.Snapshot) {
	reconcileHardStateWithSnapshot(st, snapshot)
}
