#!/bin/bash
# thorough-full.sh <ids...> : run the thorough commands with their own (long) budgets into a scratch directory.
for id in "$@"; do
  s=$(date +%s)
  VERIF_OUT=/tmp/thorough-full/$id nice -n 5 /verif/check $id thorough > /tmp/thorough-full-$id.log 2>&1
  rc=$?
  echo "$id thorough exit=$rc $(( $(date +%s) - s ))s violations=$(grep -c '^VIOLATION' /tmp/thorough-full-$id.log)"
done
