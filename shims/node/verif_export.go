//go:build verif

// Injected by /verif (go build -overlay); never part of the repository.
package node

import (
	"encoding/json"

	"github.com/youzan/ZanRedisDB/common"
	"github.com/youzan/ZanRedisDB/pkg/wait"
	"github.com/youzan/ZanRedisDB/raft/raftpb"
	"github.com/youzan/ZanRedisDB/rockredis"
)

// VerifRockDB exposes the store behind a state machine (nil for non-kv state machines).
func VerifRockDB(sm StateMachine) *rockredis.RockDB {
	if k, ok := sm.(*kvStoreSM); ok && k.store != nil {
		return k.store.RockDB
	}
	return nil
}

// VerifNewReadNode builds a KVNode shell around an existing state machine so that the
// registered *read* handlers (node/*.go) can be called without raft. Write handlers of
// this shell must not be used (they would propose to a raft node that does not exist).
func VerifNewReadNode(sm StateMachine, ns string, policy common.ExpirationPolicy) *KVNode {
	kvsm := sm.(*kvStoreSM)
	nd := &KVNode{
		store:              kvsm.store,
		sm:                 sm,
		router:             common.NewCmdRouter(),
		ns:                 ns,
		machineConfig:      &MachineConfig{},
		expirationPolicy:   policy,
		remoteSyncedStates: newRemoteSyncedStateMgr(),
		stopChan:           make(chan struct{}),
	}
	nd.registerHandler()
	return nd
}

func (nd *KVNode) VerifReadHandler(name string) (common.CommandFunc, bool) {
	return nd.router.GetCmdHandler(name)
}

func (nd *KVNode) VerifMergeHandler(name string) (common.MergeCommandFunc, bool, bool) {
	return nd.router.GetMergeCmdHandler(name)
}

// ---- cross-cluster replay seam (C19) -----------------------------------------------------

// VerifNewApplyNode: like VerifNewReadNode plus what KVNode.applyEntry touches
// (a raftNode that only carries its description and member maps; raft is not started).
func VerifNewApplyNode(sm StateMachine, ns string, policy common.ExpirationPolicy, w wait.Wait) *KVNode {
	nd := VerifNewReadNode(sm, ns, policy)
	nd.w = w
	nd.rn = &raftNode{description: ns, members: map[uint64]*common.MemberInfo{}, learnerMems: map[uint64]*common.MemberInfo{}, config: &RaftConfig{}}
	return nd
}

// VerifApplyEntry is KVNode.applyEntry (the apply loop's per-entry step).
func (nd *KVNode) VerifApplyEntry(e raftpb.Entry, isReplaying bool, batch IBatchOperator) bool {
	return nd.applyEntry(e, isReplaying, batch)
}

func (nd *KVNode) VerifBatchOperator() IBatchOperator { return nd.sm.GetBatchOperator() }

// VerifSnapshotMeta is the part of KVNode.GetSnapshot that carries the synced positions,
// serialised exactly as a raft snapshot's data is (JSON of KVSnapInfo).
func (nd *KVNode) VerifSnapshotMeta() []byte {
	var si KVSnapInfo
	si.RemoteSyncedStates = nd.remoteSyncedStates.Clone()
	d, err := json.Marshal(&si)
	if err != nil {
		panic(err)
	}
	return d
}

// VerifSnapHandle: a snapshot that was begun (KVNode.GetSnapshot has cloned the synced positions) and is
// serialised later by KVSnapInfo.GetData, as raftNode.beginSnapshot does in its own goroutine.
type VerifSnapHandle struct{ si KVSnapInfo }

func (nd *KVNode) VerifBeginSnapshotMeta() *VerifSnapHandle {
	h := &VerifSnapHandle{}
	h.si.RemoteSyncedStates = nd.remoteSyncedStates.Clone()
	return h
}

func (h *VerifSnapHandle) Data() []byte {
	d, err := h.si.GetData()
	if err != nil {
		panic(err)
	}
	return d
}

// VerifRestoreSnapshotMeta is the tail of KVNode.RestoreFromSnapshot.
func (nd *KVNode) VerifRestoreSnapshotMeta(data []byte) error {
	var si KVSnapInfo
	if err := json.Unmarshal(data, &si); err != nil {
		return err
	}
	nd.remoteSyncedStates.RestoreStates(si.RemoteSyncedStates)
	return nil
}

// VerifNodeRockDB exposes the store of a running KVNode (physical dumps in C11/C15).
func VerifNodeRockDB(nd *KVNode) *rockredis.RockDB {
	if nd.store == nil {
		return nil
	}
	return nd.store.RockDB
}

// ---- routing seam (C15) ------------------------------------------------------------------

// VerifNewRouter builds a NamespaceMgr that only knows the metas and (stub, ready) partition
// nodes of one namespace, so that the real GetNamespaceNodeWithPrimaryKey can be asked for
// every partition count.
func VerifNewRouter(base string, parts int) *NamespaceMgr {
	nsm := &NamespaceMgr{kvNodes: map[string]*NamespaceNode{}, nsMetas: map[string]*NamespaceMeta{}, groups: map[uint64]string{}}
	nsm.nsMetas[base] = &NamespaceMeta{PartitionNum: parts}
	for i := 0; i < parts; i++ {
		name := common.GetNsDesp(base, i)
		nsm.kvNodes[name] = &NamespaceNode{conf: &NamespaceConfig{Name: name, BaseName: base, PartitionNum: parts}, ready: 1}
	}
	return nsm
}

// VerifRoute: the partition the server routes a primary key ("table:key") to, or an error.
func (nsm *NamespaceMgr) VerifRoute(base string, pk []byte) (int, error) {
	n, err := nsm.GetNamespaceNodeWithPrimaryKey(base, pk)
	if err != nil {
		return -1, err
	}
	_, pid := common.GetNamespaceAndPartition(n.FullName())
	return pid, nil
}
