//go:build verif

// Injected by /verif (go build -overlay); never part of the repository.
package engine

// VerifSetMemType selects the in-memory engine variant used by NewMemEng:
// 0 skiplist, 1 radix (the repository's default), 2 btree.
func VerifSetMemType(t int) { useMemType = memType(t) }

func VerifMemType() int { return int(useMemType) }
