//go:build verif

package wal

// VerifCrashHook is called at every crash point inserted by /verif/tools/instrument
// (derived copies of a few files, build overlay only).
var VerifCrashHook func(name string)

func verifCrashPoint(name string) {
	if h := VerifCrashHook; h != nil {
		h(name)
	}
}
