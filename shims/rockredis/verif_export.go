//go:build verif

// Injected by /verif (go build -overlay); never part of the repository.
package rockredis

import (
	"github.com/youzan/ZanRedisDB/engine"
)

// VerifEngine exposes the key-value engine under a RockDB (physical dumps / state loading).
func VerifEngine(r *RockDB) engine.KVEngine { return r.rockEng }
