// Package deep: canonical binary encoding of arbitrary Go object graphs by reflection
// (incl. unexported fields), used as the state key of explicit-state searches.
// There is no per-type field list to forget: everything reachable is encoded unless
// explicitly skipped (Skip: "TypeName.field" or SkipTypes: type string).
package deep

import (
	"bytes"
	"encoding/binary"
	"reflect"
	"runtime"
	"sort"
	"unsafe"
)

type Enc struct {
	Skip      map[string]bool // "pkg.Type.field"
	SkipTypes map[string]bool // reflect.Type.String()
	buf       bytes.Buffer
	seen      map[unsafe.Pointer]int
	skipCache map[reflect.Type][]bool
	// ChanNonEmpty is set if a non-empty channel was met (harness asserts quiescence)
	ChanNonEmpty []string
}

func New() *Enc {
	return &Enc{Skip: map[string]bool{}, SkipTypes: map[string]bool{}, seen: map[unsafe.Pointer]int{}, skipCache: map[reflect.Type][]bool{}}
}

func (e *Enc) Reset() {
	e.buf.Reset()
	e.seen = map[unsafe.Pointer]int{}
	e.ChanNonEmpty = nil
}

func (e *Enc) Bytes() []byte { return e.buf.Bytes() }

func (e *Enc) u(x uint64) {
	var b [10]byte
	n := binary.PutUvarint(b[:], x)
	e.buf.Write(b[:n])
}

func (e *Enc) Tag(s string) { e.u(uint64(len(s))); e.buf.WriteString(s) }
func (e *Enc) U64(x uint64) { e.u(x) }
func (e *Enc) Raw(b []byte) { e.u(uint64(len(b))); e.buf.Write(b) }

// Value encodes v (pass a pointer to get addressability for unexported fields).
func (e *Enc) Value(v interface{}) {
	e.walk(reflect.ValueOf(v), "")
}

func access(v reflect.Value) reflect.Value {
	if v.CanInterface() {
		return v
	}
	if v.CanAddr() {
		return reflect.NewAt(v.Type(), unsafe.Pointer(v.UnsafeAddr())).Elem()
	}
	// not addressable & read-only: copy through unsafe is impossible; callers ensure addressability
	return v
}

func (e *Enc) walk(v reflect.Value, path string) {
	if !v.IsValid() {
		e.u(0)
		return
	}
	t := v.Type()
	switch v.Kind() {
	case reflect.Bool:
		if v.Bool() {
			e.u(1)
		} else {
			e.u(0)
		}
	case reflect.Int, reflect.Int8, reflect.Int16, reflect.Int32, reflect.Int64:
		e.u(uint64(v.Int()))
	case reflect.Uint, reflect.Uint8, reflect.Uint16, reflect.Uint32, reflect.Uint64, reflect.Uintptr:
		e.u(v.Uint())
	case reflect.Float32, reflect.Float64:
		e.u(uint64(int64(v.Float() * 1e6)))
	case reflect.String:
		e.Tag(v.String())
	case reflect.Ptr:
		if v.IsNil() {
			e.u(0)
			return
		}
		p := unsafe.Pointer(v.Pointer())
		if idx, ok := e.seen[p]; ok {
			e.u(2)
			e.u(uint64(idx))
			return
		}
		e.seen[p] = len(e.seen)
		e.u(1)
		e.walk(v.Elem(), path)
	case reflect.Interface:
		if v.IsNil() {
			e.u(0)
			return
		}
		el := v.Elem()
		e.Tag(el.Type().String())
		if el.Kind() == reflect.Ptr || el.Kind() == reflect.Map || el.Kind() == reflect.Slice || el.Kind() == reflect.Func || el.Kind() == reflect.Chan {
			e.walk(el, path)
		} else {
			// non-pointer dynamic value: make an addressable copy
			if el.CanInterface() {
				nv := reflect.New(el.Type()).Elem()
				nv.Set(el)
				e.walk(nv, path)
			} else {
				e.walk(el, path)
			}
		}
	case reflect.Struct:
		sk, ok := e.skipCache[t]
		if !ok {
			sk = make([]bool, t.NumField())
			ts := t.String()
			for i := range sk {
				sk[i] = e.Skip[ts+"."+t.Field(i).Name] || e.SkipTypes[t.Field(i).Type.String()]
			}
			e.skipCache[t] = sk
		}
		for i := 0; i < v.NumField(); i++ {
			if sk[i] {
				continue
			}
			e.walk(access(v.Field(i)), path)
		}
	case reflect.Slice:
		if v.IsNil() || v.Len() == 0 {
			e.u(0)
			return
		}
		if t.Elem().Kind() == reflect.Uint8 {
			e.Raw(v.Bytes())
			return
		}
		e.u(uint64(v.Len()))
		for i := 0; i < v.Len(); i++ {
			e.walk(access(v.Index(i)), path)
		}
	case reflect.Array:
		for i := 0; i < v.Len(); i++ {
			e.walk(access(v.Index(i)), path)
		}
	case reflect.Map:
		if v.IsNil() || v.Len() == 0 {
			e.u(0)
			return
		}
		type kv struct{ k, v []byte }
		var kvs []kv
		save := e.buf
		it := v.MapRange()
		for it.Next() {
			e.buf = bytes.Buffer{}
			kk := reflect.New(t.Key()).Elem()
			kk.Set(it.Key())
			e.walk(kk, path)
			kb := append([]byte(nil), e.buf.Bytes()...)
			e.buf = bytes.Buffer{}
			vv := reflect.New(t.Elem()).Elem()
			vv.Set(it.Value())
			e.walk(vv, path)
			kvs = append(kvs, kv{kb, append([]byte(nil), e.buf.Bytes()...)})
		}
		e.buf = save
		sort.Slice(kvs, func(i, j int) bool { return bytes.Compare(kvs[i].k, kvs[j].k) < 0 })
		e.u(uint64(len(kvs)))
		for _, x := range kvs {
			e.buf.Write(x.k)
			e.buf.Write(x.v)
		}
	case reflect.Func:
		if v.IsNil() {
			e.u(0)
			return
		}
		e.Tag(runtime.FuncForPC(v.Pointer()).Name())
	case reflect.Chan:
		if v.IsNil() {
			e.u(0)
			return
		}
		if v.Len() > 0 {
			e.ChanNonEmpty = append(e.ChanNonEmpty, path)
		}
		e.u(uint64(v.Len()))
	case reflect.UnsafePointer:
		// ignored
	default:
		panic("deep: unsupported kind " + v.Kind().String())
	}
}
