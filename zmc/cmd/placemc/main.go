// placemc: C17 — placement layouts.
package main

import (
	"flag"
	"fmt"
	"os"
	"time"

	"github.com/youzan/ZanRedisDB/cluster"
	"zmc/ev"
	"zmc/placemc"
)

func main() {
	tier := flag.String("tier", "quick", "")
	replay := flag.String("replay", "", "")
	flag.Parse()
	if *replay != "" {
		fmt.Println("see", *replay)
		os.Exit(1)
	}
	cluster.SetLogger(0, nil)
	quick := *tier == "quick"
	col := ev.NewCollector("C17", *tier, "exploration")
	dl := ev.NewDeadline(ev.EnvDur("VERIF_BUDGET", map[bool]time.Duration{true: 150 * time.Second, false: 20 * time.Minute}[quick]))
	maxN := 12
	parts := []int{}
	for p := 1; p <= 64; p++ {
		parts = append(parts, p)
	}
	depth := 6
	if quick {
		maxN = 8
		parts = []int{1, 2, 3, 4, 5, 6, 7, 8, 9, 10, 12, 15, 16, 24, 32, 64}
		depth = 5
	}
	t0 := time.Now()
	f, ok1 := placemc.RunFresh(col, maxN, parts, dl)
	fmt.Printf("[C17] fresh layouts=%d refusals=%d dc-spread-checked=%d v1-leader-balance-checked=%d complete=%v %.1fs\n", f.Layouts, f.Refusals, f.EvenSpreadChecked, f.LeaderBalanceChecked, ok1, time.Since(t0).Seconds())
	t0 = time.Now()
	h, ok2 := placemc.RunHistory(col, depth, dl)
	fmt.Printf("[C17] v2 history BFS: states=%d transitions=%d depth=%d complete=%v %.1fs\n", h.BFSStates, h.BFSTransitions, depth, ok2, time.Since(t0).Seconds())
	col.Set("evaluations", f.Layouts+h.BFSTransitions)
	col.Set("distinct_nontrivial", f.Layouts-f.Refusals+h.BFSStates)
	col.Set("fresh", map[string]interface{}{"layouts": f.Layouts, "refusals": f.Refusals, "dc_spread_checked": f.EvenSpreadChecked, "v1_leader_balance_checked": f.LeaderBalanceChecked, "max_nodes_all_compositions": maxN, "partition_counts": parts})
	col.Set("history_bfs", map[string]interface{}{"states": h.BFSStates, "transitions": h.BFSTransitions, "depth": depth})
	col.Set("exhaustive", ok1 && ok2)
	col.Set("rule", "fresh: every composition of N<=maxN nodes into 1..4 data centres + even and one-DC-short families for N 13..40 x partition counts x replicas 1..5 x {v1,v2} x 3 namespace names through the real getRebalancedNamespacePartitions; oracle: refusal iff live<replica, exact replica count, distinct live nodes, identical result on a second call with maps built in another order, no DC shared on even topologies with >= replica DCs, v1 leader counts equal when partitions % nodes == 0. history: BFS over (live set, layout) for v2 with lose-node/add-node events, each transition calls the real function with the previous layout. non-trivial = produced layouts + distinct BFS states")
	col.Sample(map[string]interface{}{"topology": "[2 2 2] = 3 data centres x 2 nodes", "call": "getRebalancedNamespacePartitions(ns, 8, 3, nil, nodes, v2)"})
	col.Sample(map[string]interface{}{"history": "topology [3 2], 4 partitions x 3 replicas: lose n01-dc1 -> layout' ; add n03-dc2 -> layout''"})
	os.Exit(col.Finish())
}
