// Package servermc runs a real data node (server.Server without etcd, as the repository's
// own server tests do) and talks RESP to its real redis port.
package servermc

import (
	"bufio"
	"crypto/sha256"
	"fmt"
	"io"
	"io/ioutil"
	"net"
	"os"
	"path"
	"sort"
	"strconv"
	"strings"
	"sync/atomic"
	"time"

	"github.com/youzan/ZanRedisDB/common"
	"github.com/youzan/ZanRedisDB/engine"
	"github.com/youzan/ZanRedisDB/node"
	"github.com/youzan/ZanRedisDB/rockredis"
	"github.com/youzan/ZanRedisDB/server"
	"github.com/youzan/ZanRedisDB/wal"
)

const NS = "default"

type Node struct {
	Srv   *server.Server
	Dir   string
	Port  int
	Parts int

	keepDir bool
}

func Silence() {
	engine.SetLogger(0, nil)
	node.SetLogger(0, nil)
	rockredis.SetLogger(0, nil)
	server.SetLogger(0, nil)
	wal.VerifSilence()
}

// Opts for a single-node server.
type Opts struct {
	Port, Parts int
	Dir         string
	Engine      string // mem (default), pebble, rocksdb
	SnapCount   int    // default 100000
	KeepBackup  int    // default 2
	KeepDir     bool   // Stop() leaves the directory
	TickMs      int    // default 20
	Host        []int  // partitions of the namespace hosted by this node (nil = all)
}

// Start a single-node server with `parts` partitions of namespace "default" (replicator 1).
func Start(basePort, parts int, dir string) (*Node, error) {
	return StartWith(Opts{Port: basePort, Parts: parts, Dir: dir})
}

func StartWith(o Opts) (*Node, error) {
	basePort, parts, dir := o.Port, o.Parts, o.Dir
	if dir == "" {
		d, err := ioutil.TempDir("/dev/shm", "zrverif-srv-")
		if err != nil {
			return nil, err
		}
		dir = d
	}
	if o.Engine == "" {
		o.Engine = "mem"
	}
	if o.SnapCount == 0 {
		o.SnapCount = 100000
	}
	if o.KeepBackup == 0 {
		o.KeepBackup = 2
	}
	if o.TickMs == 0 {
		o.TickMs = 20
	}
	os.MkdirAll(dir, 0o755)
	ioutil.WriteFile(path.Join(dir, "myid"), []byte("1"), 0o644)
	engine.VerifSetMemType(0)
	raftAddr := fmt.Sprintf("http://127.0.0.1:%d", basePort+2)
	conf := server.ServerConfig{ClusterID: "verif", DataDir: dir, RedisAPIPort: basePort, HttpAPIPort: basePort + 1, LocalRaftAddr: raftAddr,
		BroadcastAddr: "127.0.0.1", TickMs: o.TickMs, ElectionTick: 5, KeepBackup: o.KeepBackup, KeepWAL: 2}
	conf.RocksDBOpts.EngineType = o.Engine
	srv, err := server.NewServer(conf)
	if err != nil {
		return nil, err
	}
	var replica node.ReplicaInfo
	replica.NodeID, replica.ReplicaID, replica.RaftAddr = 1, 1, raftAddr
	hosted := func(i int) bool {
		if o.Host == nil {
			return true
		}
		for _, h := range o.Host {
			if h == i {
				return true
			}
		}
		return false
	}
	for i := 0; i < parts; i++ {
		if !hosted(i) {
			continue
		}
		ns := node.NewNSConfig()
		ns.Name = NS + "-" + strconv.Itoa(i)
		ns.BaseName = NS
		ns.EngType = rockredis.EngType
		ns.PartitionNum = parts
		ns.Replicator = 1
		ns.SnapCount = o.SnapCount
		ns.ExpirationPolicy = common.WaitCompactExpirationPolicy
		ns.DataVersion = common.ValueHeaderV1Str
		ns.RaftGroupConf.GroupID = uint64(1000 + i)
		ns.RaftGroupConf.SeedNodes = append(ns.RaftGroupConf.SeedNodes, replica)
		if _, err := srv.InitKVNamespace(1, ns, false); err != nil {
			return nil, fmt.Errorf("init namespace %d: %v", i, err)
		}
	}
	srv.Start()
	n := &Node{Srv: srv, Dir: dir, Port: basePort, Parts: parts, keepDir: o.KeepDir}
	deadline := time.Now().Add(60 * time.Second)
	for {
		ready := 0
		for i := 0; i < parts; i++ {
			if !hosted(i) {
				ready++
				continue
			}
			nn := srv.GetNamespaceFromFullName(NS + "-" + strconv.Itoa(i))
			if nn != nil && nn.Node.IsLead() && nn.IsReady() && nn.IsNsNodeFullReady(true) {
				ready++
			}
		}
		if ready == parts {
			break
		}
		if time.Now().After(deadline) {
			return nil, fmt.Errorf("server not ready after 60s (%d/%d partitions)", ready, parts)
		}
		time.Sleep(5 * time.Millisecond)
	}
	return n, nil
}

func (n *Node) Stop() {
	n.Srv.Stop()
	if !n.keepDir {
		os.RemoveAll(n.Dir)
	}
}

// PartDump: physical dump of one partition's engine (minus per-table counters).
func (n *Node) PartDump(i int) map[string]string {
	nn := n.Srv.GetNamespaceFromFullName(NS + "-" + strconv.Itoa(i))
	db := node.VerifNodeRockDB(nn.Node)
	it, err := rockredis.VerifEngine(db).GetIterator(engine.IteratorOpts{})
	if err != nil {
		panic(err)
	}
	defer it.Close()
	d := map[string]string{}
	for it.SeekToFirst(); it.Valid(); it.Next() {
		k := string(it.Key())
		if len(k) > 0 && k[0] == 10 {
			continue
		}
		d[k] = string(it.Value())
	}
	return d
}

func DumpKey(d map[string]string) string {
	ks := make([]string, 0, len(d))
	for k := range d {
		ks = append(ks, k)
	}
	sort.Strings(ks)
	h := sha256.New()
	for _, k := range ks {
		fmt.Fprintf(h, "%d:%s=%d:%s;", len(k), k, len(d[k]), d[k])
	}
	return fmt.Sprintf("%d keys %x", len(ks), h.Sum(nil)[:8])
}

var portCounter int32

// FreeBase returns a base port such that base, base+1, base+2 and base+9 could be bound just now.
func FreeBase() int {
	for try := 0; try < 2000; try++ {
		c := int(atomic.AddInt32(&portCounter, 1))
		base := 20000 + ((os.Getpid()*131+c*17)%4000)*10
		ok := true
		for _, off := range []int{0, 1, 2, 9} {
			ln, err := net.Listen("tcp", fmt.Sprintf("127.0.0.1:%d", base+off))
			if err != nil {
				ok = false
				break
			}
			ln.Close()
		}
		if ok {
			return base
		}
	}
	return 20000
}

// ---- RESP client --------------------------------------------------------------------------

type Reply struct {
	Kind string // err str int bulk null arr
	S    string
	I    int64
	A    []Reply
}

func (r Reply) String() string {
	switch r.Kind {
	case "err":
		return "ERR(" + r.S + ")"
	case "str":
		return "+" + r.S
	case "int":
		return fmt.Sprintf(":%d", r.I)
	case "bulk":
		return fmt.Sprintf("%q", r.S)
	case "null":
		return "nil"
	case "arr":
		p := make([]string, len(r.A))
		for i, x := range r.A {
			p[i] = x.String()
		}
		return "[" + strings.Join(p, " ") + "]"
	}
	return "?" + r.Kind
}

type Conn struct {
	c  net.Conn
	br *bufio.Reader
}

func Dial(port int) (*Conn, error) {
	c, err := net.DialTimeout("tcp", fmt.Sprintf("127.0.0.1:%d", port), 5*time.Second)
	if err != nil {
		return nil, err
	}
	return &Conn{c: c, br: bufio.NewReader(c)}, nil
}

func (c *Conn) Close() { c.c.Close() }

func Encode(args []string) []byte {
	var sb strings.Builder
	fmt.Fprintf(&sb, "*%d\r\n", len(args))
	for _, a := range args {
		fmt.Fprintf(&sb, "$%d\r\n%s\r\n", len(a), a)
	}
	return []byte(sb.String())
}

// Do sends one command and reads one reply (30 s limit: generous, never an oracle).
func (c *Conn) Do(args ...string) (Reply, error) {
	c.c.SetDeadline(time.Now().Add(30 * time.Second))
	if _, err := c.c.Write(Encode(args)); err != nil {
		return Reply{}, err
	}
	return c.read()
}

// DoN sends raw bytes (one or several commands) and reads n replies.
func (c *Conn) DoN(raw []byte, n int) ([]Reply, error) {
	c.c.SetDeadline(time.Now().Add(30 * time.Second))
	if _, err := c.c.Write(raw); err != nil {
		return nil, err
	}
	var out []Reply
	for i := 0; i < n; i++ {
		r, err := c.read()
		if err != nil {
			return out, err
		}
		out = append(out, r)
	}
	return out, nil
}

// DoFramed sends one command followed by a PING and returns every reply that precedes the PONG:
// the number of replies of a command is observed, not assumed.
func (c *Conn) DoFramed(args []string) ([]Reply, error) {
	// a reply that never completes is an outcome for the caller to classify, never a verdict
	c.c.SetDeadline(time.Now().Add(15 * time.Second))
	if _, err := c.c.Write(append(Encode(args), Encode([]string{"ping"})...)); err != nil {
		return nil, err
	}
	var out []Reply
	for {
		r, err := c.read()
		if err != nil {
			return out, err
		}
		if r.Kind == "str" && r.S == "PONG" {
			return out, nil
		}
		out = append(out, r)
	}
}

func (c *Conn) read() (Reply, error) {
	line, err := c.br.ReadString('\n')
	if err != nil {
		return Reply{}, err
	}
	line = strings.TrimRight(line, "\r\n")
	if line == "" {
		return Reply{}, fmt.Errorf("empty reply line")
	}
	switch line[0] {
	case '+':
		return Reply{Kind: "str", S: line[1:]}, nil
	case '-':
		return Reply{Kind: "err", S: line[1:]}, nil
	case ':':
		v, _ := strconv.ParseInt(line[1:], 10, 64)
		return Reply{Kind: "int", I: v}, nil
	case '$':
		n, _ := strconv.Atoi(line[1:])
		if n < 0 {
			return Reply{Kind: "null"}, nil
		}
		buf := make([]byte, n+2)
		if _, err := io.ReadFull(c.br, buf); err != nil {
			return Reply{}, err
		}
		return Reply{Kind: "bulk", S: string(buf[:n])}, nil
	case '*':
		n, _ := strconv.Atoi(line[1:])
		if n < 0 {
			return Reply{Kind: "null"}, nil
		}
		r := Reply{Kind: "arr"}
		for i := 0; i < n; i++ {
			x, err := c.read()
			if err != nil {
				return Reply{}, err
			}
			r.A = append(r.A, x)
		}
		return r, nil
	}
	return Reply{}, fmt.Errorf("bad reply %q", line)
}
