package storemc

import (
	"bytes"
	"fmt"
	"github.com/youzan/ZanRedisDB/common"
	"math"
	"sort"

	"github.com/youzan/ZanRedisDB/rockredis"
	"zmc/ev"
)

// C12 part A: exhaustive codec enumeration through the real encoders.

var isoAlphabet = []byte{0x00, 0x01, ':', ';', 0xff, 'a'}

func words(alpha []byte, minLen, maxLen int, skip byte) [][]byte {
	var out [][]byte
	var rec func(cur []byte)
	rec = func(cur []byte) {
		if len(cur) >= minLen {
			out = append(out, append([]byte{}, cur...))
		}
		if len(cur) == maxLen {
			return
		}
		for _, b := range alpha {
			if b == skip && skip != 0 {
				continue
			}
			rec(append(cur, b))
		}
	}
	rec(nil)
	return out
}

type encRec struct {
	enc  []byte
	coll int // index of the owning collection
	desc string
}

type CodecStats struct {
	Encodings, Collections, Tables, RoundTrips, OrderPairs int
}

func RunCodec(col *ev.Collector, subLen int) CodecStats {
	var st CodecStats
	tables := words(isoAlphabet, 1, 2, ':')
	keys := words(isoAlphabet, 0, 2, 0)
	subs := words(isoAlphabet, 0, subLen, 0)
	vers := []int64{-1, 0, 1600000000000000000} // -1: raw key (local_deletion), else versioned key
	report := func(sig, what string) {
		col.Add(ev.Violation{Property: "C12", Signature: "C12|codec|" + sig, What: what})
	}
	for _, typ := range []string{"hash", "set", "zset", "zscore", "list", "bitmap"} {
		var recs []encRec
		type collInfo struct {
			start, stop []byte
			n           int
			table       int
			desc        string
		}
		var colls []collInfo
		tableCount := make([]int, len(tables))
		for ti, tb := range tables {
			for _, k := range keys {
				for _, ver := range vers {
					sk := k
					if ver >= 0 {
						sk = rockredis.VerifVerKey(k, ver)
					}
					if len(sk) > 0xffff {
						continue
					}
					start, stop := rockredis.VerifCollRange(typ, tb, sk)
					ci := len(colls)
					desc := fmt.Sprintf("%s table=%q key=%q ver=%d", typ, tb, k, ver)
					colls = append(colls, collInfo{start: start, stop: stop, table: ti, desc: desc})
					add := func(sub []byte, seq int64, score float64) {
						enc := rockredis.VerifSubKey(typ, tb, sk, sub, seq, score)
						recs = append(recs, encRec{enc: enc, coll: ci, desc: fmt.Sprintf("%s sub=%q seq=%d score=%v", desc, sub, seq, score)})
						colls[ci].n++
						tableCount[ti]++
						st.Encodings++
						// round trip
						dt, dk, dsub, dseq, dscore, err := rockredis.VerifDecodeSubKey(typ, enc)
						st.RoundTrips++
						ok := err == nil && bytes.Equal(dt, tb) && bytes.Equal(dk, sk)
						switch typ {
						case "hash", "set", "zset":
							ok = ok && bytes.Equal(dsub, sub)
						case "zscore":
							ok = ok && bytes.Equal(dsub, sub) && dscore == score
						case "list", "bitmap":
							ok = ok && dseq == seq
						}
						if !ok {
							report(typ+"|round-trip", fmt.Sprintf("decode(encode(%s sub=%q seq=%d score=%v)) = table %q key %q sub %q seq %d score %v err %v", desc, sub, seq, score, dt, dk, dsub, dseq, dscore, err))
						}
					}
					switch typ {
					case "hash", "set", "zset":
						for _, sub := range subs {
							add(sub, 0, 0)
						}
					case "zscore":
						for _, sub := range subs {
							for _, sc := range []float64{-1, 0, 1, 1 << 40} {
								add(sub, 0, sc)
							}
						}
					case "list":
						for _, seq := range []int64{1000, 1001, 1 << 61, 1<<62 - 1001} {
							add(nil, seq, 0)
						}
					case "bitmap":
						for _, seq := range []int64{0, 1, 1000} {
							add(nil, seq, 0)
						}
					}
				}
			}
		}
		st.Collections += len(colls)
		sort.Slice(recs, func(i, j int) bool { return bytes.Compare(recs[i].enc, recs[j].enc) < 0 })
		// injectivity
		for i := 1; i < len(recs); i++ {
			if bytes.Equal(recs[i].enc, recs[i-1].enc) {
				report(typ+"|collision", fmt.Sprintf("two different elements share the stored key %q: {%s} and {%s}", recs[i].enc, recs[i-1].desc, recs[i].desc))
			}
		}
		lower := func(b []byte) int {
			return sort.Search(len(recs), func(i int) bool { return bytes.Compare(recs[i].enc, b) >= 0 })
		}
		// containment per collection: [start, stop) holds exactly its own elements
		for ci, c := range colls {
			lo, hi := lower(c.start), lower(c.stop)
			own := 0
			for i := lo; i < hi; i++ {
				if recs[i].coll == ci {
					own++
				} else {
					report(typ+"|range-contains-foreign", fmt.Sprintf("range of {%s} [%q,%q) contains {%s}", c.desc, c.start, c.stop, recs[i].desc))
					break
				}
			}
			if own != c.n && hi-lo == own {
				report(typ+"|range-misses-own", fmt.Sprintf("range of {%s} [%q,%q) holds %d of its %d elements", c.desc, c.start, c.stop, own, c.n))
			}
		}
		// containment per table
		for ti, tb := range tables {
			start, end := rockredis.VerifTableRange(typ, tb)
			lo, hi := lower(start), lower(end)
			st.Tables++
			if hi-lo != tableCount[ti] {
				report(typ+"|table-range", fmt.Sprintf("table range of %s table %q [%q,%q) holds %d stored keys, the table has %d", typ, tb, start, end, hi-lo, tableCount[ti]))
			} else {
				for i := lo; i < hi; i++ {
					if colls[recs[i].coll].table != ti {
						report(typ+"|table-range", fmt.Sprintf("table range of %s table %q contains {%s}", typ, tb, recs[i].desc))
						break
					}
				}
			}
		}
	}
	// kv keys and meta keys: injective per type, kv inside its table range
	{
		var recs []encRec
		tableCount := make([]int, len(tables))
		for ti, tb := range tables {
			for _, k := range words(isoAlphabet, 0, 3, 0) {
				full := append(append(append([]byte{}, tb...), ':'), k...)
				_, ek, err := rockredis.VerifKVKey(full)
				if err != nil {
					continue
				}
				st.Encodings++
				recs = append(recs, encRec{enc: ek, coll: ti, desc: fmt.Sprintf("kv table=%q key=%q", tb, k)})
				tableCount[ti]++
				dk, err := rockredis.VerifDecodeKVKey(ek)
				st.RoundTrips++
				if err != nil || !bytes.Equal(dk, full) {
					report("kv|round-trip", fmt.Sprintf("decode(encode(kv %q)) = %q err %v", full, dk, err))
				}
			}
		}
		sort.Slice(recs, func(i, j int) bool { return bytes.Compare(recs[i].enc, recs[j].enc) < 0 })
		for i := 1; i < len(recs); i++ {
			if bytes.Equal(recs[i].enc, recs[i-1].enc) {
				report("kv|collision", fmt.Sprintf("{%s} and {%s} share stored key %q", recs[i-1].desc, recs[i].desc, recs[i].enc))
			}
		}
		lower := func(b []byte) int {
			return sort.Search(len(recs), func(i int) bool { return bytes.Compare(recs[i].enc, b) >= 0 })
		}
		for ti, tb := range tables {
			start, end := rockredis.VerifTableRange("kv", tb)
			lo, hi := lower(start), lower(end)
			st.Tables++
			bad := hi-lo != tableCount[ti]
			for i := lo; i < hi && !bad; i++ {
				bad = recs[i].coll != ti
			}
			if bad {
				report("kv|table-range", fmt.Sprintf("kv table range of %q [%q,%q) holds %d stored keys, the table has %d (or foreign keys)", tb, start, end, hi-lo, tableCount[ti]))
			}
		}
		for _, typ := range []string{"hash", "set", "zset", "list", "bitmap"} {
			seen := map[string]string{}
			for _, tb := range tables {
				for _, k := range keys {
					full := append(append(append([]byte{}, tb...), ':'), k...)
					mk := rockredis.VerifMetaKey(typ, full)
					st.Encodings++
					if prev, dup := seen[string(mk)]; dup {
						report(typ+"|meta-collision", fmt.Sprintf("meta key %q shared by %q and %q", mk, prev, full))
					}
					seen[string(mk)] = string(full)
				}
			}
		}
	}
	// memcomparable codec: order and round trip
	{
		bs := [][]byte{nil, {}, {0}, {0, 0}, {0, 1}, {1}, {0xff}, {0xff, 0}, {0xff, 0xff}, []byte("a"), []byte("a\x00"), []byte("ab"), []byte("12345678"), []byte("123456789"), []byte("1234567\x00"), []byte("12345678\x00")}
		is := []int64{math.MinInt64, math.MinInt64 + 1, -1 << 32, -256, -1, 0, 1, 255, 256, 1 << 32, math.MaxInt64 - 1, math.MaxInt64}
		fs := []float64{math.Inf(-1), -math.MaxFloat64, -1.5, -1, -math.SmallestNonzeroFloat64, math.Copysign(0, -1), 0, math.SmallestNonzeroFloat64, 0.5, 1, 1.5, math.MaxFloat64, math.Inf(1)}
		type tup struct {
			b []byte
			i int64
			f float64
		}
		var tups []tup
		for _, b := range bs {
			for _, i := range is {
				for _, f := range fs {
					tups = append(tups, tup{b, i, f})
				}
			}
		}
		encs := make([][]byte, len(tups))
		for n, t := range tups {
			e, err := rockredis.EncodeMemCmpKey(nil, t.b, t.i, t.f)
			if err != nil {
				report("memcmp|encode-error", fmt.Sprintf("encode(%q,%d,%v): %v", t.b, t.i, t.f, err))
				continue
			}
			encs[n] = e
			vals, err := rockredis.Decode(e, len(e))
			st.RoundTrips++
			ok := err == nil && len(vals) == 3
			if ok {
				db, _ := vals[0].([]byte)
				di, _ := vals[1].(int64)
				df, _ := vals[2].(float64)
				ok = bytes.Equal(db, t.b) && di == t.i && df == t.f
			}
			if !ok {
				report("memcmp|round-trip", fmt.Sprintf("decode(encode(%q,%d,%v)) = %v err %v", t.b, t.i, t.f, vals, err))
			}
		}
		cmpT := func(a, b tup) int {
			if c := bytes.Compare(a.b, b.b); c != 0 {
				return c
			}
			if a.i != b.i {
				if a.i < b.i {
					return -1
				}
				return 1
			}
			if a.f != b.f {
				if a.f < b.f {
					return -1
				}
				return 1
			}
			return 0
		}
		for x := range tups {
			for y := range tups {
				if encs[x] == nil || encs[y] == nil {
					continue
				}
				st.OrderPairs++
				want := cmpT(tups[x], tups[y])
				got := bytes.Compare(encs[x], encs[y])
				if (want < 0) != (got < 0) || (want > 0) != (got > 0) {
					report("memcmp|order", fmt.Sprintf("compare(enc%v, enc%v) = %d but the tuples compare %d", tups[x], tups[y], got, want))
				}
			}
		}
	}
	return st
}

// ---- part B: store-level isolation ----------------------------------------------------

var IsoNames = []string{"t:a", "t:a:", "t:a:b", "t:ab", "t:", "t:\x00", "t:\xff", "t:a\x00", "t:a;", "ta:", "t\x00:a", "t;:a", "s:a", "t:\x00\x01a", "t:\x00\x02a:", "t:a\x00\x00"}

var isoTypes = []string{"kv", "hash", "list", "set", "zset"}

func isoCreate(s *Store, ts int64, typ, name string) Reply {
	switch typ {
	case "kv":
		return s.Write(ts, "set", name, "v-"+name)
	case "hash":
		s.Write(ts, "hset", name, "f", "v-"+name)
		s.Write(ts, "hset", name, "", "empty-field") // the element at the very start of the collection's range
		return s.Write(ts, "hset", name, "g:", "w")
	case "list":
		return s.Write(ts, "rpush", name, "v-"+name, "w")
	case "set":
		return s.Write(ts, "sadd", name, "m-"+name, ":", "")
	case "zset":
		return s.Write(ts, "zadd", name, "1", "m-"+name, "2", ":", "0", "")
	}
	panic(typ)
}

func isoRead(s *Store, typ, name string) string {
	switch typ {
	case "kv":
		return s.Read("get", name).String() + s.Read("ttl", name).String()
	case "hash":
		return s.Read("hgetall", name).String() + s.Read("hlen", name).String() + s.Read("httl", name).String()
	case "list":
		return s.Read("lrange", name, "0", "-1").String() + s.Read("llen", name).String() + s.Read("lttl", name).String()
	case "set":
		return s.Read("smembers", name).String() + s.Read("scard", name).String() + s.Read("sttl", name).String()
	case "zset":
		return s.Read("zrange", name, "0", "-1", "withscores").String() + s.Read("zcard", name).String() + s.Read("zttl", name).String()
	}
	panic(typ)
}

type isoOp struct {
	name string
	cmds func(typ, a string) [][]string
}

var isoOps = []isoOp{
	{"write", func(typ, a string) [][]string {
		return map[string][][]string{"kv": {{"set", a, "new"}, {"append", a, "x"}}, "hash": {{"hset", a, "f", "new"}, {"hset", a, "h", "new"}}, "list": {{"lpush", a, "new"}, {"lset", a, "0", "n"}},
			"set": {{"sadd", a, "new"}}, "zset": {{"zadd", a, "5", "new"}, {"zincrby", a, "1", "new"}}}[typ]
	}},
	{"delete-element", func(typ, a string) [][]string {
		return map[string][][]string{"kv": {{"del", a}}, "hash": {{"hdel", a, "f"}}, "list": {{"lpop", a}}, "set": {{"srem", a, "m-" + a}}, "zset": {{"zrem", a, "m-" + a}, {"zremrangebyscore", a, "-inf", "+inf"}}}[typ]
	}},
	{"clear", func(typ, a string) [][]string {
		return map[string][][]string{"kv": {{"del", a}}, "hash": {{"hclear", a}}, "list": {{"lclear", a}}, "set": {{"sclear", a}}, "zset": {{"zclear", a}}}[typ]
	}},
	{"clear-recreate", func(typ, a string) [][]string {
		return map[string][][]string{"kv": {{"del", a}, {"set", a, "again"}}, "hash": {{"hclear", a}, {"hset", a, "z", "again"}}, "list": {{"lclear", a}, {"rpush", a, "again"}}, "set": {{"sclear", a}, {"sadd", a, "again"}}, "zset": {{"zclear", a}, {"zadd", a, "9", "again"}}}[typ]
	}},
	{"expire", func(typ, a string) [][]string {
		return map[string][][]string{"kv": {{"expire", a, "100"}}, "hash": {{"hexpire", a, "100"}}, "list": {{"lexpire", a, "100"}}, "set": {{"sexpire", a, "100"}}, "zset": {{"zexpire", a, "100"}}}[typ]
	}},
	{"trim-pop-all", func(typ, a string) [][]string {
		return map[string][][]string{"kv": {{"getset", a, ""}}, "hash": {{"hdel", a, "f", "g:"}}, "list": {{"ltrim", a, "1", "0"}}, "set": {{"spop", a, "10"}}, "zset": {{"zremrangebyrank", a, "0", "-1"}}}[typ]
	}},
}

type IsoStats struct {
	Pairs, Ops int
	Changed    int // operations on A that changed A (non-vacuous)
}

// RunIsolation: for every ordered pair (A,B) of distinct (type,name) from the adversarial pool and
// every operation on A: B's logical content and B's physical keys must not change.
func RunIsolation(s *Store, col *ev.Collector, label string, names []string, dl ev.Deadline) (st IsoStats, complete bool) {
	ts := int64(1600000000) * 1e9
	// base state: every (type, name) exists
	s.Load(Dump{})
	type ent struct{ typ, name string }
	var ents []ent
	created := map[ent][]string{}
	for _, typ := range isoTypes {
		for _, n := range names {
			before := s.Dump()
			r := isoCreate(s, ts, typ, n)
			if r.IsErr() {
				col.Outcome("isolation:name-rejected:" + typ)
				continue
			}
			ents = append(ents, ent{typ, n})
			for k := range s.Dump() {
				if _, had := before[k]; !had && !skipMetaKey(k) {
					created[ent{typ, n}] = append(created[ent{typ, n}], k)
				}
			}
		}
	}
	base := s.Dump()
	baseRead := map[ent]string{}
	for _, e := range ents {
		baseRead[e] = isoRead(s, e.typ, e.name)
	}
	// which physical keys belong to which entity: found by deleting the entity alone
	owner := map[string]ent{}
	for _, e := range ents {
		s.Load(base)
		for _, c := range isoOps[2].cmds(e.typ, e.name) {
			s.Write(ts+1e9, c...)
		}
		after := s.Dump()
		if s.Opt.Policy != common.WaitCompact {
			// exactly the keys of the addressed collection: none of its own may stay behind
			// (under wait_compact a clear only starts a new version, the old keys wait for a compaction)
			for _, k := range created[e] {
				if _, still := after[k]; still {
					col.Add(ev.Violation{Property: "C12", Signature: "C12|store|clear-leaves-own-key|" + e.typ, What: fmt.Sprintf("%s: clearing %s %q leaves its stored key %q behind", label, e.typ, e.name, k)})
					break
				}
			}
		}
		for k := range base {
			if _, still := after[k]; !still && !skipMetaKey(k) {
				if prev, dup := owner[k]; dup && prev != e {
					col.Add(ev.Violation{Property: "C12", Signature: "C12|store|clear-removes-foreign-key", What: fmt.Sprintf("%s: stored key %q disappears when clearing %v and also when clearing %v", label, k, prev, e)})
				}
				owner[k] = e
			}
		}
	}
	for _, a := range ents {
		if dl.Hit() {
			return st, false
		}
		for _, op := range isoOps {
			s.Load(base)
			var replies []string
			for _, c := range op.cmds(a.typ, a.name) {
				replies = append(replies, s.Write(ts+1e9, c...).String())
			}
			st.Ops++
			after := s.Dump()
			if isoRead(s, a.typ, a.name) != baseRead[a] {
				st.Changed++
			}
			for _, b := range ents {
				if b == a {
					continue
				}
				st.Pairs++
				if got := isoRead(s, b.typ, b.name); got != baseRead[b] {
					col.Add(ev.Violation{Property: "C12", Signature: fmt.Sprintf("C12|store|%s|%s-changes-%s", op.name, a.typ, b.typ),
						What:   fmt.Sprintf("%s: %s on %s %q (replies %v) changed %s %q: %s -> %s", label, op.name, a.typ, a.name, replies, b.typ, b.name, baseRead[b], got),
						Replay: map[string]interface{}{"label": label, "a": a, "b": b, "op": op.name}})
				}
			}
			// physical: every key owned by somebody else is untouched
			for k, v := range base {
				o, known := owner[k]
				if !known || o == a {
					continue
				}
				if nv, ok := after[k]; !ok || nv != v {
					col.Add(ev.Violation{Property: "C12", Signature: fmt.Sprintf("C12|store|%s|physical|%s-touches-%s", op.name, a.typ, o.typ),
						What: fmt.Sprintf("%s: %s on %s %q changed stored key %q of %s %q", label, op.name, a.typ, a.name, k, o.typ, o.name)})
					break
				}
			}
		}
	}
	return st, true
}

func skipMetaKey(k string) bool { return len(k) > 0 && k[0] == 10 }

// RunBigClear: the clear commands switch from item-by-item deletion to one range deletion above
// RangeDeleteNum (5000) elements; that path gets its own bounds. One collection with 5001 elements
// per type is cleared by every clearing command while neighbours with adversarial names exist in
// the same and in another table; nothing of the neighbours may change and (policies other than
// wait_compact) nothing of the cleared collection may stay.
func RunBigClear(s *Store, col *ev.Collector, label string) (ops int) {
	ts := int64(1600000000) * 1e9
	const big = "t:a"
	neighbours := []string{"t:b", "t:ab", "t:a:", "t:zz", "t:0", "t:", "t2:a", "t:a\x00"}
	const n = 5001
	type clearOp struct {
		name string
		cmds [][]string
	}
	types := map[string][]clearOp{
		"hash": {{"hclear", [][]string{{"hclear", big}}}},
		"set":  {{"sclear", [][]string{{"sclear", big}}}},
		"list": {{"lclear", [][]string{{"lclear", big}}}},
		"zset": {{"zclear", [][]string{{"zclear", big}}}, {"zremrangebyrank", [][]string{{"zremrangebyrank", big, "0", "-1"}}}, {"zremrangebylex", [][]string{{"zremrangebylex", big, "-", "+"}}},
			{"zremrangebyscore", [][]string{{"zremrangebyscore", big, "-inf", "+inf"}}}},
	}
	fill := func(typ, name string, count int) {
		for from := 0; from < count; from += 2000 {
			to := from + 2000
			if to > count {
				to = count
			}
			args := []string{map[string]string{"hash": "hmset", "set": "sadd", "list": "rpush", "zset": "zadd"}[typ], name}
			for i := from; i < to; i++ {
				m := fmt.Sprintf("m%05d", i)
				switch typ {
				case "hash":
					args = append(args, m, "v")
				case "zset":
					args = append(args, "1", m)
				default:
					args = append(args, m)
				}
			}
			if r := s.Write(ts, args...); r.IsErr() {
				panic(fmt.Sprintf("fill %s %s: %v", typ, name, r))
			}
		}
	}
	deepRead := func(typ, name string) string {
		r := isoRead(s, typ, name)
		switch typ {
		case "hash":
			r += s.Read("hget", name, "m00000").String() + s.Read("hkeys", name).String()
		case "set":
			r += s.Read("sismember", name, "m00000").String()
		case "zset":
			r += s.Read("zscore", name, "m00000").String() + s.Read("zrangebylex", name, "-", "+").String() + s.Read("zlexcount", name, "-", "+").String() + s.Read("zrank", name, "m00001").String()
		case "list":
			r += s.Read("lindex", name, "1").String()
		}
		return r
	}
	for _, typ := range []string{"hash", "set", "list", "zset"} {
		s.Load(Dump{})
		var present []string
		for _, nb := range neighbours {
			func() {
				defer func() { recover() }() // a name the type refuses is simply not a neighbour
				fill(typ, nb, 3)
				present = append(present, nb)
			}()
		}
		emptyNeighbours := s.Dump()
		fill(typ, big, n)
		base := s.Dump()
		want := map[string]string{}
		for _, nb := range present {
			want[nb] = deepRead(typ, nb)
		}
		for _, op := range types[typ] {
			s.Load(base)
			var replies []string
			for _, c := range op.cmds {
				replies = append(replies, s.Write(ts+1e9, c...).String())
			}
			ops++
			for _, nb := range present {
				if got := deepRead(typ, nb); got != want[nb] {
					col.Add(ev.Violation{Property: "C12", Signature: fmt.Sprintf("C12|store|big-clear|%s-changes-neighbour", op.name),
						What: fmt.Sprintf("%s: %s of %s %q holding %d elements (replies %v) changed %s %q: %s -> %s", label, op.name, typ, big, n, replies, typ, nb, want[nb], got)})
					break
				}
			}
			if s.Opt.Policy != common.WaitCompact {
				after := s.Dump()
				for k := range after {
					if _, ok := emptyNeighbours[k]; !ok && !skipMetaKey(k) {
						col.Add(ev.Violation{Property: "C12", Signature: fmt.Sprintf("C12|store|big-clear|%s-leaves-own-key", op.name),
							What: fmt.Sprintf("%s: %s of %s %q holding %d elements leaves its stored key %q behind", label, op.name, typ, big, n, k)})
						break
					}
				}
				for k, v := range emptyNeighbours {
					if nv, ok := after[k]; (!ok || nv != v) && !skipMetaKey(k) {
						col.Add(ev.Violation{Property: "C12", Signature: fmt.Sprintf("C12|store|big-clear|%s-touches-foreign-key", op.name),
							What: fmt.Sprintf("%s: %s of %s %q holding %d elements changed the stored key %q of a neighbour", label, op.name, typ, big, n, k)})
						break
					}
				}
			}
		}
	}
	return ops
}

// ---- whole-table delete ----------------------------------------------------------------

// table names that extend each other or differ in the byte next to the separator, and keys at the edges of a table's range
var isoTables = []string{"t", "ta", "t;", "t\x00", "t9", "t_", "t\xff", "s", "order", "orders", "order_items", "orde"}
var isoTableKeys = []string{"k", ";", "\x00", "\xff"}

// RunTableDelete: every table of the pool holds one entity per type and key; dropping one table
// (RockDB.DeleteTableRange with an unbounded range, what the delete-range API of a namespace applies on
// every replica) must leave nothing of that table readable or stored and must not change anything,
// logically or physically, of any other table.
func RunTableDelete(s *Store, col *ev.Collector, label string) (ops int) {
	ts := int64(1600000000) * 1e9
	type ent struct{ typ, table, key string }
	full := func(e ent) string { return e.table + ":" + e.key }
	s.Load(Dump{})
	var ents []ent
	absent := map[ent]string{}
	created := map[ent][]string{}
	for _, typ := range isoTypes {
		for _, tb := range isoTables {
			for _, k := range isoTableKeys {
				e := ent{typ, tb, k}
				absent[e] = isoRead(s, typ, full(e))
			}
		}
	}
	for _, typ := range isoTypes {
		for _, tb := range isoTables {
			for _, k := range isoTableKeys {
				e := ent{typ, tb, k}
				before := s.Dump()
				if r := isoCreate(s, ts, typ, full(e)); r.IsErr() {
					col.Outcome("table-delete:name-rejected:" + typ)
					continue
				}
				ents = append(ents, e)
				for pk := range s.Dump() {
					if _, had := before[pk]; !had && !skipMetaKey(pk) {
						created[e] = append(created[e], pk)
					}
				}
			}
		}
	}
	base := s.Dump()
	baseRead := map[ent]string{}
	for _, e := range ents {
		baseRead[e] = isoRead(s, e.typ, full(e))
	}
	for _, tb := range isoTables {
		s.Load(base)
		if err := s.DB.DeleteTableRange(false, tb, nil, nil); err != nil {
			col.Outcome("table-delete:refused")
			continue
		}
		ops++
		after := s.Dump()
		for _, e := range ents {
			got := isoRead(s, e.typ, full(e))
			if e.table == tb {
				if got != absent[e] {
					col.Add(ev.Violation{Property: "C12", Signature: "C12|store|table-delete|leaves-" + e.typ, What: fmt.Sprintf("%s: after dropping table %q its %s %q still reads %s", label, tb, e.typ, full(e), got),
						Replay: map[string]interface{}{"label": label, "table": tb, "entity": e}})
				}
				for _, pk := range created[e] {
					if _, still := after[pk]; still {
						col.Add(ev.Violation{Property: "C12", Signature: "C12|store|table-delete|leaves-stored-key|" + e.typ, What: fmt.Sprintf("%s: dropping table %q leaves stored key %q of its %s %q behind", label, tb, pk, e.typ, full(e)),
							Replay: map[string]interface{}{"label": label, "table": tb, "entity": e}})
						break
					}
				}
				continue
			}
			if got != baseRead[e] {
				col.Add(ev.Violation{Property: "C12", Signature: "C12|store|table-delete|changes-other-table|" + e.typ, What: fmt.Sprintf("%s: dropping table %q changed %s %q of table %q: %s -> %s", label, tb, e.typ, full(e), e.table, baseRead[e], got),
					Replay: map[string]interface{}{"label": label, "table": tb, "entity": e}})
				continue
			}
			for _, pk := range created[e] {
				if nv, ok := after[pk]; !ok || nv != base[pk] {
					col.Add(ev.Violation{Property: "C12", Signature: "C12|store|table-delete|physical|touches-other-table|" + e.typ, What: fmt.Sprintf("%s: dropping table %q changed stored key %q of %s %q", label, tb, pk, e.typ, full(e)),
						Replay: map[string]interface{}{"label": label, "table": tb, "entity": e}})
					break
				}
			}
		}
	}
	return ops
}
