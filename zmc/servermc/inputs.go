package servermc

import (
	"bufio"
	"encoding/json"
	"fmt"
	"net"
	"os"
	"os/exec"
	"sort"
	"strconv"
	"strings"
	"sync"
	"syscall"
	"time"

	"zmc/ev"
)

// C11: every argument vector derived by mutation from a valid seed of every registered
// command is sent over the real redis port of a real server (child process): connection
// handler with its recover(), leader-side validation, raft, apply. The child must stay alive;
// a command that answers an error must leave every partition's physical content unchanged;
// a probe write afterwards must have exactly its own effect.

const K = NS + ":t:k" // kv
const H = NS + ":t:h" // hash
const L = NS + ":t:l" // list
const S = NS + ":t:s" // set
const Z = NS + ":t:z" // zset
const B = NS + ":t:b" // bitmap
const J = NS + ":t:j" // json
const P = NS + ":t:p" // hll
const G = NS + ":t:g" // geo
const K2 = NS + ":t:k2"
const BK = NS + ":t:bk" // old-format bitmap: a kv value

// Seeds: one valid vector per registered command. (json.mkget is an unimplemented stub: rockredis JMGet
// returns nil and the handler never writes a reply; the framing below observes that as zero replies.)
func Seeds() [][]string {
	return [][]string{
		// kv
		{"get", K}, {"stale.get", K}, {"stale.getversion", K}, {"stale.getexpired", K}, {"strlen", K}, {"getrange", K, "0", "1"}, {"getnolock", K}, {"getbit", B, "3"}, {"bitcount", B, "0", "1"},
		{"mget", K, K2}, {"set", K, "v"}, {"append", K, "x"}, {"setrange", K, "1", "y"}, {"getset", K, "w"}, {"setbit", B, "3", "1"}, {"setbitv2", B, "3", "1"}, {"setbit", BK, "9", "1"}, {"getbit", BK, "1"}, {"bitcount", BK}, {"setnx", K2, "v"},
		{"setifeq", K, "v", "n"}, {"delifeq", K, "v"}, {"incr", K2}, {"incrby", K2, "5"}, {"pfadd", P, "a", "b"}, {"pfcount", P}, {"bitclear", B},
		// hash
		{"hget", H, "f"}, {"stale.hget.version", H, "f"}, {"stale.hgetall.expired", H}, {"stale.hmget.expired", H, "f", "g"}, {"hgetall", H}, {"hkeys", H}, {"hvals", H}, {"hexists", H, "f"},
		{"hmget", H, "f", "g"}, {"hlen", H}, {"hset", H, "f", "v"}, {"hsetnx", H, "g", "v"}, {"hmset", H, "f", "1", "g", "2"}, {"hdel", H, "f", "g"}, {"hincrby", H, "n", "2"}, {"hclear", H},
		// json
		{"json.get", J, "a"}, {"json.keyexists", J}, {"json.mkget", J, "a"}, {"json.type", J, "a"}, {"json.arrlen", J, "a"}, {"json.objkeys", J}, {"json.objlen", J},
		{"json.set", J, ".", `{"a":[1,2],"b":"x"}`}, {"json.del", J, "b"}, {"json.arrappend", J, "a", "3"}, {"json.arrpop", J, "a"},
		// list
		{"lindex", L, "0"}, {"llen", L}, {"lrange", L, "0", "-1"}, {"lfixkey", L}, {"lpop", L}, {"lpush", L, "a", "b"}, {"lset", L, "0", "x"}, {"ltrim", L, "0", "1"}, {"rpop", L}, {"rpush", L, "c"}, {"lclear", L},
		// zset
		{"zscore", Z, "m"}, {"zcount", Z, "0", "10"}, {"zcard", Z}, {"zlexcount", Z, "-", "+"}, {"zrange", Z, "0", "-1", "withscores"}, {"zrevrange", Z, "0", "-1"}, {"zrangebylex", Z, "[a", "(z", "limit", "0", "1"},
		{"zrangebyscore", Z, "0", "(10", "withscores", "limit", "0", "2"}, {"zrevrangebyscore", Z, "10", "0"}, {"zrank", Z, "m"}, {"zrevrank", Z, "m"}, {"zfixkey", Z}, {"zadd", Z, "1", "m", "2", "n"},
		{"zincrby", Z, "1.5", "m"}, {"zrem", Z, "m", "n"}, {"zremrangebyrank", Z, "0", "0"}, {"zremrangebyscore", Z, "0", "1"}, {"zremrangebylex", Z, "[a", "[b"}, {"zclear", Z},
		// set
		{"scard", S}, {"sismember", S, "m"}, {"smembers", S}, {"srandmember", S, "2"}, {"spop", S, "1"}, {"sadd", S, "m", "n"}, {"srem", S, "m"}, {"sclear", S},
		// ttl
		{"ttl", K}, {"httl", H}, {"lttl", L}, {"sttl", S}, {"zttl", Z}, {"bttl", B}, {"hkeyexist", H}, {"lkeyexist", L}, {"skeyexist", S}, {"zkeyexist", Z}, {"bkeyexist", B},
		{"setex", K, "100", "v"}, {"expire", K, "100"}, {"hexpire", H, "100"}, {"lexpire", L, "100"}, {"sexpire", S, "100"}, {"zexpire", Z, "100"}, {"bexpire", B, "100"},
		{"persist", K}, {"hpersist", H}, {"lpersist", L}, {"spersist", S}, {"zpersist", Z}, {"bpersist", B},
		// scans
		{"hscan", H, "", "count", "2", "match", "*"}, {"sscan", S, "", "count", "2"}, {"zscan", Z, "", "count", "2"}, {"hrevscan", H, "z"}, {"srevscan", S, "z"}, {"zrevscan", Z, "z"},
		{"scan", NS + ":t:", "count", "2", "match", "*"}, {"advscan", NS + ":t:", "hash", "count", "2"}, {"revscan", NS + ":t:z"}, {"advrevscan", NS + ":t:z", "kv"},
		{"fullscan", NS + ":t:", "kv", "count", "2"}, {"hidx.from", NS + ":t", "where", `"f">1`},
		// geo
		{"geoadd", G, "13.361389", "38.115556", "Palermo", "15.087269", "37.502669", "Catania"}, {"geohash", G, "Palermo"}, {"geodist", G, "Palermo", "Catania", "km"}, {"geopos", G, "Palermo"},
		{"georadius", G, "15", "37", "200", "km", "withdist", "count", "1", "asc"}, {"georadiusbymember", G, "Palermo", "200", "km"},
		// merged keys
		{"exists", K, K2}, {"del", K, K2}, {"plset", K, "a", K2, "b"}, {"noopwrite", K, "v"},
	}
}

var nasty = []string{"", "0", "-1", "1", "2", "9223372036854775807", "9223372036854775808", "-9223372036854775809", "1e400", "nan", "inf", "-inf", "(1", "[a", "(", "[", "-", "+", "abc",
	"\x00", "\xff", NS + ":", ":", NS + ":t", NS + ":t:", "nosuchns:t:k", "WITHSCORES", "Limit", "COUNT", "match", "*", "[", `{"a":`, `"`, "$.a[", "a.b..c", "-0", "4294967296", "-4294967297", "0x10", " 1", "1 ",
	// dictionary: the error text the apply path treats as fatal (isUnrecoveryError); arguments are echoed into error messages
	"IO error: No space left on device", "1 IO error: No space left on device"}

func bigValues() []string {
	// just over MaxKeySize / MaxSubKeyLen (10240), a 64 KiB value, an over-long table name
	return []string{NS + ":t:" + strings.Repeat("k", 10241), strings.Repeat("v", 64*1024), NS + ":" + strings.Repeat("t", 300) + ":k", strings.Repeat("m", 10241)}
}

// over MaxValueSize (8 MiB): only tried as the last argument
var hugeValue = strings.Repeat("V", 8*1024*1024+1)

// quick tier: the 8 MiB+1 value only where a value is stored
var valueWrites = map[string]bool{"set": true, "setex": true, "append": true, "setrange": true, "getset": true, "setnx": true, "setifeq": true, "hset": true, "hsetnx": true, "hmset": true,
	"lpush": true, "rpush": true, "lset": true, "sadd": true, "zadd": true, "pfadd": true, "json.set": true, "json.arrappend": true, "geoadd": true, "plset": true, "noopwrite": true}

var freshTag int

func isNumeric(a string) bool {
	_, err := strconv.ParseFloat(a, 64)
	return err == nil
}

// freshMutants: argument i is made invalid by size or emptiness while every other non-numeric argument
// after the key gets a name never used before, so whatever the handler buffered for the earlier,
// valid arguments before it met the bad one would be visible if it leaked.
func freshMutants(seed []string) [][]string {
	var out [][]string
	for i := 2; i < len(seed); i++ {
		if isNumeric(seed[i]) {
			continue
		}
		for _, bad := range []string{strings.Repeat("m", 10241), ""} {
			freshTag++
			v := append([]string(nil), seed...)
			for j := 2; j < len(v); j++ {
				if j != i && !isNumeric(v[j]) {
					v[j] = fmt.Sprintf("%s~%d", v[j], freshTag)
				}
			}
			v[i] = bad
			out = append(out, v)
		}
	}
	return out
}

// Mutations of one seed: single mutations (and, in the thorough tier, all pairs of them for the position-wise replace operator).
func Mutate(seed []string, pairs bool) [][]string {
	var out [][]string
	add := func(v []string) {
		if len(v) > 0 {
			out = append(out, v)
		}
	}
	cp := func() []string { return append([]string(nil), seed...) }
	for i := 1; i < len(seed); i++ {
		v := cp()
		add(append(v[:i], v[i+1:]...)) // delete arg i
		v = cp()
		add(append(v[:i+1], append([]string{seed[i]}, v[i+1:]...)...)) // duplicate arg i
		for j := i + 1; j < len(seed); j++ {
			v = cp()
			v[i], v[j] = v[j], v[i]
			add(v)
		}
		for _, n := range append(append([]string(nil), nasty...), bigValues()...) {
			v = cp()
			v[i] = n
			add(v)
		}
		// option keywords in wrong case
		v = cp()
		v[i] = strings.ToUpper(v[i])
		add(v)
	}
	for _, v := range freshMutants(seed) {
		add(v)
	}
	if len(seed) > 2 && (pairs || valueWrites[seed[0]]) {
		v := cp()
		v[len(v)-1] = hugeValue
		add(v)
	}
	add(append(cp(), "x"))
	add(append(cp(), "x", "y"))
	add(append(cp(), "0"))
	add(seed[:1])
	if pairs {
		small := []string{"", "-1", "9223372036854775807", "nan", "(1", "\x00", NS + ":"}
		for i := 1; i < len(seed); i++ {
			for j := i + 1; j < len(seed); j++ {
				for _, a := range small {
					for _, b := range small {
						v := cp()
						v[i], v[j] = a, b
						add(v)
					}
				}
			}
		}
	}
	return out
}

// ---- child ------------------------------------------------------------------------------------

// ChildMain: "<port>": run a 2-partition server; admin port = port+9 answering "dump\n" with
// one line per partition (digest of the physical content).
func ChildMain(spec string) {
	sp := strings.SplitN(spec, ",", 2)
	port, _ := strconv.Atoi(sp[0])
	dir := ""
	if len(sp) > 1 {
		dir = sp[1]
	}
	// an allocation without bound must end this child, not the sandbox
	lim := syscall.Rlimit{Cur: 12 << 30, Max: 12 << 30}
	syscall.Setrlimit(syscall.RLIMIT_AS, &lim)
	n, err := Start(port, 2, dir)
	if err != nil {
		fmt.Println("CHILD-ERROR", err)
		os.Exit(3)
	}
	ln, err := net.Listen("tcp", fmt.Sprintf("127.0.0.1:%d", port+9))
	if err != nil {
		fmt.Println("CHILD-ERROR", err)
		os.Exit(3)
	}
	fmt.Println("CHILD-READY")
	for {
		c, err := ln.Accept()
		if err != nil {
			return
		}
		go func(c net.Conn) {
			defer c.Close()
			br := bufio.NewReader(c)
			for {
				l, err := br.ReadString('\n')
				if err != nil {
					return
				}
				switch strings.TrimSpace(l) {
				case "dump":
					var parts []string
					for i := 0; i < n.Parts; i++ {
						parts = append(parts, DumpKey(n.PartDump(i)))
					}
					fmt.Fprintf(c, "%s\n", strings.Join(parts, " | "))
				case "fulldump":
					var parts []string
					for i := 0; i < n.Parts; i++ {
						d := n.PartDump(i)
						ks := make([]string, 0, len(d))
						for k := range d {
							ks = append(ks, k)
						}
						sort.Strings(ks)
						for _, k := range ks {
							v := d[k]
							if len(v) > 48 {
								v = v[:48]
							}
							parts = append(parts, fmt.Sprintf("p%d %q=%q", i, k, v))
						}
					}
					fmt.Fprintf(c, "%s\n", strings.Join(parts, "\x1e"))
				case "quit":
					n.Stop()
					os.Exit(0)
				}
			}
		}(c)
	}
}

type child struct {
	cmd     *exec.Cmd
	port    int
	conn    *Conn
	admin   net.Conn
	abr     *bufio.Reader
	dir     string
	errPath string
}

// panicLine: the panic message and the first repository frame from the dead child's stderr.
func (c *child) panicLine() string {
	b, err := os.ReadFile(c.errPath)
	if err != nil {
		return ""
	}
	var msg, frame string
	for _, l := range strings.Split(string(b), "\n") {
		if msg == "" && (strings.HasPrefix(l, "panic:") || strings.HasPrefix(l, "fatal error:")) {
			msg = l
		}
		if msg != "" && frame == "" && strings.Contains(l, "/repo/") {
			frame = strings.TrimSpace(l)
			if i := strings.Index(frame, " +0x"); i > 0 {
				frame = frame[:i]
			}
		}
	}
	return msg + " at " + frame
}

func startChild(port int) (*child, error) {
	var c *child
	var err error
	for try := 0; try < 5; try++ {
		c, err = startChildOnce(FreeBase())
		if err == nil {
			return c, nil
		}
		time.Sleep(time.Duration(try+1) * 200 * time.Millisecond)
	}
	return nil, err
}

func startChildOnce(port int) (*child, error) {
	// the data directory belongs to the parent: it is removed whatever way the child ends
	dir, err := os.MkdirTemp("/dev/shm", "zrverif-srv-")
	if err != nil {
		return nil, err
	}
	cmd := exec.Command(os.Args[0], "-child", strconv.Itoa(port)+","+dir)
	out, err := cmd.StdoutPipe()
	if err != nil {
		return nil, err
	}
	errFile, _ := os.CreateTemp("/dev/shm", "zrverif-c11-stderr-")
	if errFile != nil {
		cmd.Stderr = errFile
		defer errFile.Close()
	}
	if os.Getenv("VERIF_C11_STDERR") != "" {
		cmd.Stderr = os.Stderr
	}
	if err := cmd.Start(); err != nil {
		return nil, err
	}
	br := bufio.NewReader(out)
	ready := make(chan error, 1)
	go func() {
		for {
			l, err := br.ReadString('\n')
			if err != nil {
				ready <- fmt.Errorf("child ended before ready: %v", err)
				return
			}
			if strings.HasPrefix(l, "CHILD-READY") {
				ready <- nil
				// keep draining (the mem engine prints to stdout)
				go func() {
					for {
						if _, err := br.ReadString('\n'); err != nil {
							return
						}
					}
				}()
				return
			}
			if strings.HasPrefix(l, "CHILD-ERROR") {
				ready <- fmt.Errorf("%s", l)
				return
			}
		}
	}()
	select {
	case err := <-ready:
		if err != nil {
			cmd.Process.Kill()
			cmd.Wait()
			os.RemoveAll(dir)
			return nil, err
		}
	case <-time.After(60 * time.Second):
		cmd.Process.Kill()
		cmd.Wait()
		os.RemoveAll(dir)
		return nil, fmt.Errorf("child not ready after 60s")
	}
	c := &child{cmd: cmd, port: port, dir: dir}
	if errFile != nil {
		c.errPath = errFile.Name()
	}
	c.conn, err = Dial(port)
	if err != nil {
		c.stop()
		return nil, err
	}
	c.admin, err = net.Dial("tcp", fmt.Sprintf("127.0.0.1:%d", port+9))
	if err != nil {
		c.stop()
		return nil, err
	}
	c.abr = bufio.NewReader(c.admin)
	return c, nil
}

func (c *child) dump() (string, error) {
	c.admin.SetDeadline(time.Now().Add(60 * time.Second))
	if _, err := fmt.Fprintf(c.admin, "dump\n"); err != nil {
		return "", err
	}
	l, err := c.abr.ReadString('\n')
	return strings.TrimSpace(l), err
}

func (c *child) fulldump() []string {
	c.admin.SetDeadline(time.Now().Add(60 * time.Second))
	fmt.Fprintf(c.admin, "fulldump\n")
	l, _ := c.abr.ReadString('\n')
	l = strings.TrimRight(l, "\n")
	if l == "" {
		return nil
	}
	return strings.Split(l, "\x1e")
}

// ReplayC11 re-sends one recorded vector to a fresh child and prints what it did.
func ReplayC11(file string) int {
	var rec struct {
		Replay struct {
			Prior  string   `json:"prior"`
			Vector []string `json:"vector"`
		} `json:"replay"`
	}
	b, err := os.ReadFile(file)
	if err != nil || json.Unmarshal(b, &rec) != nil {
		fmt.Println("INFRA: cannot read", file)
		return 2
	}
	ch, err := startChild(24000 + (os.Getpid()%200)*200)
	if err != nil {
		fmt.Println("INFRA:", err)
		return 2
	}
	defer ch.stop()
	if rec.Replay.Prior == "populated" {
		populate(ch.conn)
	}
	before := ch.fulldump()
	rs, err := ch.conn.DoFramed(rec.Replay.Vector)
	fmt.Printf("vector %s -> %v (err %v)\n", vecStr(rec.Replay.Vector), rs, err)
	time.Sleep(200 * time.Millisecond)
	if !ch.alive() {
		fmt.Println("the data node process is dead")
		return 1
	}
	after := ch.fulldump()
	bm := map[string]bool{}
	for _, l := range before {
		bm[l] = true
	}
	am := map[string]bool{}
	for _, l := range after {
		am[l] = true
		if !bm[l] {
			fmt.Println("  + ", l)
		}
	}
	for _, l := range before {
		if !am[l] {
			fmt.Println("  - ", l)
		}
	}
	return 0
}

func (c *child) alive() bool {
	// signal 0: is the process still there (and not a zombie: try a ping on a new connection)
	cc, err := Dial(c.port)
	if err != nil {
		return false
	}
	defer cc.Close()
	r, err := cc.Do("ping")
	return err == nil && r.S == "PONG"
}

func (c *child) stop() {
	if c.admin != nil {
		fmt.Fprintf(c.admin, "quit\n")
	}
	done := make(chan struct{})
	go func() { c.cmd.Wait(); close(done) }()
	select {
	case <-done:
	case <-time.After(10 * time.Second):
		c.cmd.Process.Kill()
		<-done
	}
	if c.errPath != "" {
		os.Remove(c.errPath)
	}
	if c.dir != "" {
		os.RemoveAll(c.dir)
	}
}

func populate(c *Conn) {
	for _, cmd := range [][]string{{"del", K, K2, NS + ":t:same", NS + ":t:", BK}, {"bitclear", BK}, {"hclear", H}, {"lclear", L}, {"sclear", S}, {"zclear", Z}, {"bitclear", B}, {"json.del", J}, {"del", P}, {"zclear", G},
		{"hclear", NS + ":t:same"}, {"lclear", NS + ":t:same"}, {"sclear", NS + ":t:same"}, {"zclear", NS + ":t:same"}, {"set", K, "v"}, {"set", K2, "7"}, {"hmset", H, "f", "1", "g", "2", "n", "5"}, {"rpush", L, "a", "b", "c"}, {"sadd", S, "m", "n", "o"}, {"zadd", Z, "1", "m", "2", "n", "3", "o"},
		{"setbitv2", B, "3", "1"}, {"json.set", J, ".", `{"a":[1,2],"b":"x"}`}, {"pfadd", P, "a", "b"}, {"geoadd", G, "13.361389", "38.115556", "Palermo", "15.087269", "37.502669", "Catania"},
		// a kv value with an empty name (accepted by SET), an old-format bitmap stored as a kv value
		{"set", NS + ":t:", "v"}, {"set", BK, "\xf0\x0f"},
		// the same name under several types
		{"set", NS + ":t:same", "v"}, {"hset", NS + ":t:same", "f", "v"}, {"rpush", NS + ":t:same", "a"}, {"sadd", NS + ":t:same", "m"}, {"zadd", NS + ":t:same", "1", "m"}} {
		c.Do(cmd...)
	}
}

type InputStats struct {
	Vectors, Errors, Deaths, Restarts, DumpChecks, Probes int
	ByCommand                                             map[string]int
}

func vecStr(v []string) string {
	var p []string
	for _, a := range v {
		if len(a) > 40 {
			p = append(p, fmt.Sprintf("%q...(%d bytes)", a[:16], len(a)))
		} else {
			p = append(p, fmt.Sprintf("%q", a))
		}
	}
	return "[" + strings.Join(p, " ") + "]"
}

func short(r Reply) string {
	x := r.String()
	if len(x) > 200 {
		x = x[:200] + "..."
	}
	return x
}

// one probe key per partition
var probeKeys = func() []string {
	got := map[int]string{}
	for i := 0; len(got) < 2; i++ {
		k := fmt.Sprintf("%s:probe:p%d", NS, i)
		if _, ok := got[pidOf(k, 2)]; !ok {
			got[pidOf(k, 2)] = k
		}
	}
	return []string{got[0], got[1]}
}()

func replyCount(v []string) int {
	if strings.ToLower(v[0]) == "plset" {
		n := (len(v) - 1) / 2
		if n < 1 {
			n = 1
		}
		return n
	}
	return 1
}

// runShard sends its share of the vectors to its own child.
func runShard(col *ev.Collector, shard, nshards int, vectors [][]string, prior string, port int, dl ev.Deadline, st *InputStats, mu *sync.Mutex) bool {
	ch, err := startChild(port)
	if err != nil {
		fmt.Println("INFRA: cannot start server child:", err)
		return false
	}
	defer func() { ch.stop() }()
	if prior == "populated" {
		populate(ch.conn)
	}
	dirty := false
	sent := 0
	for i, v := range vectors {
		if i%nshards != shard {
			continue
		}
		if dl.Hit() {
			return false
		}
		name := strings.ToLower(v[0])
		sent++
		if sent%300 == 0 {
			// accepted vectors with fresh names make the store grow; a fresh child keeps every dump small
			ch.stop()
			ch, err = startChild(port)
			if err != nil {
				fmt.Println("INFRA: cannot restart server child:", err)
				return false
			}
			dirty = prior == "populated"
		}
		if prior == "populated" && dirty {
			// the previous vector was accepted and may have consumed what this one needs: same prior state for every vector
			populate(ch.conn)
			dirty = false
		}
		before, derr := ch.dump()
		if derr != nil {
			fmt.Println("INFRA: dump failed:", derr)
			return false
		}
		var r Reply
		tv := time.Now()
		rs, rerr := ch.conn.DoFramed(v)
		// an error = every reply is an error (PLSET answers per pair and applies the pairs of the partitions that succeeded)
		nerr := 0
		for _, x := range rs {
			if x.Kind == "err" {
				nerr++
				r = x
			}
		}
		if len(rs) > 0 && nerr < len(rs) {
			r = Reply{Kind: "ok"}
			for _, x := range rs {
				if x.Kind != "err" {
					r = x
				}
			}
		}
		if rerr == nil && len(rs) == 0 {
			col.Outcome("no-reply:" + name)
			r = Reply{Kind: "err", S: "(no reply at all)"}
		}
		if len(rs) > 1 {
			col.Outcome(fmt.Sprintf("multi-reply:%s", name))
		}
		if d := time.Since(tv); d > 200*time.Millisecond && os.Getenv("VERIF_C11_SLOW") != "" {
			fmt.Printf("slow %v: %s -> %s %v\n", d, vecStr(v), short(r), rerr)
		}
		mu.Lock()
		st.Vectors++
		st.ByCommand[name]++
		mu.Unlock()
		if rerr != nil {
			// the connection was closed: a recovered panic in a read handler closes it (tolerated);
			// a dead process is not
			ch.conn.Close()
			if !ch.alive() {
				// confirm by sending the vector alone to a fresh child
				time.Sleep(100 * time.Millisecond)
				why := ch.panicLine()
				ch.stop()
				mu.Lock()
				st.Deaths++
				mu.Unlock()
				confirmed := false
				if c2, err := startChild(port); err == nil {
					if prior == "populated" {
						populate(c2.conn)
					}
					c2.conn.Do(v...)
					time.Sleep(300 * time.Millisecond)
					confirmed = !c2.alive()
					c2.stop()
				}
				sig := "process-dies"
				if !confirmed {
					sig = "process-dies-unconfirmed"
				}
				col.Add(ev.Violation{Property: "C11", Signature: "C11|" + name + "|" + sig, What: fmt.Sprintf("prior state %s: sending %s kills the data node process: %s (confirmed on a fresh child: %v)", prior, vecStr(v), why, confirmed),
					Replay: map[string]interface{}{"prior": prior, "vector": v}})
				ch, err = startChild(port)
				if err != nil {
					fmt.Println("INFRA: cannot restart server child:", err)
					return false
				}
				mu.Lock()
				st.Restarts++
				mu.Unlock()
				if prior == "populated" {
					populate(ch.conn)
				}
				continue
			}
			// no complete reply: the server closed the connection (a panic on the connection path is
			// recovered there) or the reply is malformed/never ends. Not an error reply, so the
			// unchanged-data obligation does not apply; the leak probe below still does.
			if ne, ok := rerr.(net.Error); ok && ne.Timeout() {
				col.Outcome("no-complete-reply(malformed or missing):" + name)
			} else {
				col.Outcome("connection-closed-by-server(recovered panic or protocol error):" + name)
			}
			ch.conn, err = Dial(ch.port)
			if err != nil {
				return false
			}
			r = Reply{Kind: "noreply"}
		}
		if r.Kind != "err" {
			dirty = true
		}
		if r.Kind == "err" {
			mu.Lock()
			st.Errors++
			st.DumpChecks++
			mu.Unlock()
			after, derr := ch.dump()
			if derr != nil {
				fmt.Println("INFRA: dump failed:", derr)
				return false
			}
			if after != before {
				col.Add(ev.Violation{Property: "C11", Signature: "C11|" + name + "|error-but-data-changed", What: fmt.Sprintf("prior state %s: %s answered %s but the stored data changed (%s -> %s)", prior, vecStr(v), short(r), before, after),
					Replay: map[string]interface{}{"prior": prior, "vector": v}})
			}
		}
		if r.Kind == "err" || r.Kind == "noreply" {
			// nothing buffered leaks into the next command: a probe write on every partition has exactly its own effect
			b2, _ := ch.dump()
			for _, pk := range probeKeys {
				ch.conn.Do("set", pk, "p")
			}
			mid, _ := ch.dump()
			for _, pk := range probeKeys {
				ch.conn.Do("del", pk)
			}
			a2, _ := ch.dump()
			mu.Lock()
			st.Probes++
			mu.Unlock()
			if a2 != b2 || mid == b2 {
				col.Add(ev.Violation{Property: "C11", Signature: "C11|" + name + "|leaks-into-next-command", What: fmt.Sprintf("prior state %s: after %s answered %s, a probe SET+DEL of a fresh key on every partition does not return the store to its content (%s -> %s -> %s)", prior, vecStr(v), short(r), b2, mid, a2),
					Replay: map[string]interface{}{"prior": prior, "vector": v}})
			}
		}
	}
	// final liveness
	if !ch.alive() {
		col.Add(ev.Violation{Property: "C11", Signature: "C11|process-dead-at-end", What: "the data node is not answering at the end of the shard"})
	}
	return true
}

func RunC11(tier string) int {
	quick := tier == "quick"
	col := ev.NewCollector("C11", tier, "exploration")
	dl := ev.NewDeadline(ev.EnvDur("VERIF_BUDGET", map[bool]time.Duration{true: 150 * time.Second, false: 20 * time.Minute}[quick]))
	var vectors [][]string
	seen := map[string]bool{}
	for _, s := range Seeds() {
		for _, v := range append([][]string{s}, Mutate(s, !quick)...) {
			k := strings.Join(v, "\x1f")
			if !seen[k] {
				seen[k] = true
				vectors = append(vectors, v)
			}
		}
	}
	st := &InputStats{ByCommand: map[string]int{}}
	var mu sync.Mutex
	nshards := 12
	complete := true
	for _, prior := range []string{"empty", "populated"} {
		var wg sync.WaitGroup
		for sh := 0; sh < nshards; sh++ {
			wg.Add(1)
			go func(sh int) {
				defer wg.Done()
				port := 24000 + (os.Getpid()%200)*200 + sh*20
				if !runShard(col, sh, nshards, vectors, prior, port, dl, st, &mu) {
					mu.Lock()
					complete = false
					mu.Unlock()
				}
			}(sh)
		}
		wg.Wait()
	}
	cmds := make([]string, 0, len(st.ByCommand))
	for c := range st.ByCommand {
		cmds = append(cmds, c)
	}
	sort.Strings(cmds)
	fmt.Printf("[C11] vectors sent=%d (distinct per prior state %d, %d commands) error replies=%d dump checks=%d probes=%d process deaths=%d complete=%v\n", st.Vectors, len(vectors), len(cmds), st.Errors, st.DumpChecks, st.Probes, st.Deaths, complete)
	col.Set("evaluations", st.Vectors)
	col.Set("distinct_nontrivial", len(vectors))
	col.Set("commands_covered", cmds)
	col.Set("error_replies", st.Errors)
	col.Set("unchanged_after_error_checks", st.DumpChecks)
	col.Set("probe_writes", st.Probes)
	col.Set("process_deaths", st.Deaths)
	col.Set("exhaustive", complete)
	col.Set("rule", "a valid seed vector for every registered read, write and merge command; mutation operators applied exhaustively once (thorough: position pairs too): delete / duplicate / swap arguments, append 1-2 arguments, upper-case, replace each argument by each value of a nasty pool (empty, integer and float edges, nan/inf, range syntax fragments, 00/ff, namespace fragments, option keywords, 10241-byte key and member (limit 10240), 64 KiB value, 8 MiB+1 value as last argument), fresh-name variants (one argument invalid by size, every other one renamed to a never-used name); every vector sent as raw RESP to the real redis port of a real server child (2 partitions), from the empty and a populated state; oracle: the process stays alive (a death is confirmed on a fresh child), an error reply leaves the physical content of every partition unchanged, a probe SET+DEL afterwards has exactly its own effect. non-trivial = distinct vectors")
	col.Sample(map[string]interface{}{"seed": []string{"zrangebyscore", Z, "0", "(10", "withscores", "limit", "0", "2"}, "mutants": []string{`zrangebyscore z nan (10 ...`, `zrangebyscore z 0 (10 withscores limit 0`, `zrangebyscore z 0 (10 LIMIT ...`}})
	col.Sample(map[string]interface{}{"nasty_pool": nasty})
	col.Assume = []string{"a panic in a read handler is recovered by the server and closes the connection: tolerated by the statement", "replicator 1 (a panic in apply would kill every replica the same way)"}
	if st.Errors == 0 && col.NumViolationSigs() == 0 {
		fmt.Println("INFRA: vacuous (no error reply observed)")
		col.Finish()
		return 2
	}
	return col.Finish()
}
