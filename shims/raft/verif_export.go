//go:build verif

// Injected by /verif (go build -overlay); never part of the repository. Adds read-only
// accessors and the single-threaded conf-change hand-off used by the raft model checker.
package raft

import (
	"math/rand"

	pb "github.com/youzan/ZanRedisDB/raft/raftpb"
)

type verifConstSource struct{ v int64 }

func (s *verifConstSource) Int63() int64 { return s.v }
func (s *verifConstSource) Seed(int64)   {}

// VerifSetRandDraw makes globalRand.Intn(2^k) return draw (the randomized election timeout
// becomes electionTimeout+draw). Constant per process; see DESIGN.md 2.3.
func VerifSetRandDraw(draw int) {
	globalRand.mu.Lock()
	globalRand.rand = rand.New(&verifConstSource{v: int64(draw) << 32})
	globalRand.mu.Unlock()
}

type VerifView struct {
	ID, Term, Vote, Lead, Committed, Applied, FirstIndex, LastIndex uint64
	State                                                            StateType
	IsLearner, PendingConf                                           bool
	Voters, Learners                                                 []uint64
}

func VerifNodeView(n Node) VerifView {
	r := n.(*node).r
	v := VerifView{ID: r.id, Term: r.Term, Vote: r.Vote, Lead: r.lead, State: r.state, IsLearner: r.isLearner,
		PendingConf: r.pendingConf, Committed: r.raftLog.committed, Applied: r.raftLog.applied,
		FirstIndex: r.raftLog.firstIndex(), LastIndex: r.raftLog.lastIndex()}
	v.Voters = r.nodes()
	v.Learners = r.learnerNodes()
	return v
}

// VerifLogEntries returns the whole log (storage + unstable) of the node.
func VerifLogEntries(n Node) []pb.Entry {
	return n.(*node).r.raftLog.allEntries()
}

func VerifLogTerm(n Node, i uint64) (uint64, error) {
	return n.(*node).r.raftLog.term(i)
}

// VerifRaft exposes the node object for the reflective canonical-state walker.
func VerifRaft(n Node) interface{} { return n.(*node) }

// VerifPendingProposals returns the proposals still queued (a node without leader keeps them).
func VerifPendingProposals(n Node) []pb.Message {
	q := n.(*node).propQ
	q.mu.Lock()
	defer q.mu.Unlock()
	t := q.targetQueue()
	out := make([]pb.Message, 0, q.idx)
	for i := uint64(0); i < q.idx; i++ {
		out = append(out, t[i].m)
	}
	return out
}

func VerifPendingMsgs(n Node) int {
	q := n.(*node).msgQ
	q.mu.Lock()
	defer q.mu.Unlock()
	return int(q.idx) + len(q.snapshot)
}

// VerifHandleConfChanged is production's wait-apply hand-off (node/raft.go processReady:
// `cc := <-ConfChangedCh(); HandleConfChanged(cc)` while the apply loop blocks in
// ApplyConfChange) executed on one goroutine: both channels are buffered with capacity 1.
func VerifHandleConfChanged(n Node, cc pb.ConfChange) pb.ConfState {
	nn := n.(*node)
	nn.confc <- cc
	nn.HandleConfChanged(<-nn.confc)
	return <-nn.confstatec
}

// VerifQueueConfChange is the asynchronous variant (apply loop calls ApplyConfChange while
// the raft loop is not waiting): the change is queued and consumed by the next StepNode.
func VerifQueueConfChange(n Node, cc pb.ConfChange) {
	nn := n.(*node)
	nn.confc <- cc
	nn.NotifyEventCh()
}

func VerifConfQueued(n Node) bool { return len(n.(*node).confc) > 0 }

// VerifTakeConfState fetches the ConfState produced by a queued change after StepNode handled it.
func VerifTakeConfState(n Node) (pb.ConfState, bool) {
	nn := n.(*node)
	select {
	case cs := <-nn.confstatec:
		return cs, true
	default:
		return pb.ConfState{}, false
	}
}

func VerifDrainNotify(n Node) {
	nn := n.(*node)
	select {
	case <-nn.eventNotifyCh:
	default:
	}
}
