#!/bin/bash
# MANIFEST.setup_cmd: build everything the checks need from files on disk only (offline).
set -e
V=$(cd "$(dirname "$0")" && pwd)
export GOFLAGS=-mod=mod GOPROXY=off GOSUMDB=off GOTOOLCHAIN=local CGO_LDFLAGS=-L$V/build/lib
mkdir -p "$V/build/bin" "$V/build/lib" "$V/evidence" "$V/replays"
cp /repo/go.sum "$V/zmc/go.sum"
# overlays (also patches the third-party copies and creates the empty libjemalloc.a)
python3 "$V/tools/mkoverlay.py" raft > /dev/null
python3 "$V/tools/mkoverlay.py" vclock --vclock > /dev/null
python3 "$V/tools/mkoverlay.py" crash --crash > /dev/null
# warm the build cache: one binary per engine
for b in $(ls "$V/zmc/cmd"); do
  ov=raft
  case $b in storevc) ov=vclock ;; crashmc) ov=crash ;; dbg) continue ;; esac
  ( cd "$V/zmc" && go build -tags verif -overlay "$V/build/overlay-$ov.json" -o "$V/build/bin/$b" ./cmd/$b ) || { echo "setup: build of $b failed"; exit 1; }
done
echo setup ok
