// Package explore: explicit-state breadth-first search over event paths executed on the
// real implementation (a state is identified by a canonical hash and stored as the
// shortest event list reaching it; successors are computed by replay on fresh objects).
package explore

import (
	"fmt"
	"sync"
	"sync/atomic"
	"time"
)

type Key [16]byte

// Sys is one fresh instance of the system under exploration.
type Sys interface {
	// Apply executes one event (must be one of Enabled() of the current state, or any
	// event recorded in a path that was produced that way).
	Apply(ev uint32)
	// Key is the canonical state hash (includes oracle history and budgets).
	Key() Key
	// Enabled lists the events enabled now, in canonical order.
	Enabled() []uint32
	// Bad reports oracle failures observed so far on this instance ("" = none).
	Bad() []Bad
	Close()
}

type Bad struct {
	Property, Signature, What string
}

type Found struct {
	Bad
	Path []uint32
}

type Stats struct {
	States, Transitions uint64
	Levels              []int // frontier size per completed level
	CompletedDepth      int
	Exhaustive          bool // frontier became empty (fixpoint) before depth bound
	DeadlineHit         bool
	ReplayChecks        uint64
	Found               []Found
}

type Options struct {
	MaxDepth int
	Workers  int
	Deadline time.Time
	// Prefix is executed before the search starts (seed scenario); depth counts after it.
	Prefix []uint32
	// OnState is called for every new state (under no lock; must be goroutine-safe).
	OnState func(s Sys, depth int)
	// MaxFound stops after that many violating states
	MaxFound int
}

type item struct {
	path    []uint32
	enabled []uint32
}

// BFS explores from newSys()+Prefix. Every transition is executed on the real
// implementation: traces_validated_against_impl == transitions by construction.
func BFS(newSys func() Sys, opt Options) (st Stats, err error) {
	if opt.Workers <= 0 {
		opt.Workers = 1
	}
	if opt.MaxFound <= 0 {
		opt.MaxFound = 50
	}
	const nshard = 256
	type shard struct {
		mu sync.Mutex
		m  map[Key]struct{}
	}
	var visited [nshard]*shard
	for i := range visited {
		visited[i] = &shard{m: map[Key]struct{}{}}
	}
	add := func(k Key) bool {
		s := visited[k[0]]
		s.mu.Lock()
		_, ok := s.m[k]
		if !ok {
			s.m[k] = struct{}{}
		}
		s.mu.Unlock()
		return !ok
	}
	var infra atomic.Value
	run := func(path []uint32) (s Sys) {
		s = newSys()
		for _, e := range path {
			s.Apply(e)
		}
		return s
	}
	var foundMu sync.Mutex
	root := run(opt.Prefix)
	if b := root.Bad(); len(b) > 0 {
		for _, x := range b {
			st.Found = append(st.Found, Found{x, append([]uint32(nil), opt.Prefix...)})
		}
		root.Close()
		return st, nil
	}
	rk := root.Key()
	add(rk)
	st.States = 1
	if opt.OnState != nil {
		opt.OnState(root, 0)
	}
	frontier := []item{{path: append([]uint32(nil), opt.Prefix...), enabled: root.Enabled()}}
	root.Close()
	// determinism: the prefix replayed again must give the same key
	r2 := run(opt.Prefix)
	if r2.Key() != rk {
		r2.Close()
		return st, fmt.Errorf("nondeterministic replay of the seed prefix")
	}
	r2.Close()

	var states, trans, rchecks uint64 = 1, 0, 0
	for depth := 1; depth <= opt.MaxDepth && len(frontier) > 0; depth++ {
		var next []item
		var nextMu sync.Mutex
		var idx int64 = -1
		var wg sync.WaitGroup
		var deadlineHit int32
		for w := 0; w < opt.Workers; w++ {
			wg.Add(1)
			go func() {
				defer wg.Done()
				var local []item
				for {
					i := int(atomic.AddInt64(&idx, 1))
					if i >= len(frontier) {
						break
					}
					if !opt.Deadline.IsZero() && time.Now().After(opt.Deadline) {
						atomic.StoreInt32(&deadlineHit, 1)
						break
					}
					it := frontier[i]
					for _, e := range it.enabled {
						s := run(it.path)
						s.Apply(e)
						atomic.AddUint64(&trans, 1)
						if b := s.Bad(); len(b) > 0 {
							foundMu.Lock()
							for _, x := range b {
								if len(st.Found) < opt.MaxFound {
									p := append(append([]uint32(nil), it.path...), e)
									st.Found = append(st.Found, Found{x, p})
								}
							}
							foundMu.Unlock()
							s.Close()
							continue // violating states are not expanded
						}
						k := s.Key()
						if add(k) {
							n := atomic.AddUint64(&states, 1)
							p := make([]uint32, len(it.path)+1)
							copy(p, it.path)
							p[len(it.path)] = e
							if opt.OnState != nil {
								opt.OnState(s, depth)
							}
							local = append(local, item{path: p, enabled: s.Enabled()})
							if depth <= 3 || n%97 == 0 {
								// determinism obligation: same path on a fresh instance, same key
								s2 := run(p)
								atomic.AddUint64(&rchecks, 1)
								if s2.Key() != k {
									infra.Store(fmt.Sprintf("nondeterministic replay at depth %d path %v", depth, p))
								}
								s2.Close()
							}
						}
						s.Close()
					}
				}
				nextMu.Lock()
				next = append(next, local...)
				nextMu.Unlock()
			}()
		}
		wg.Wait()
		if v := infra.Load(); v != nil {
			return st, fmt.Errorf("%s", v.(string))
		}
		if deadlineHit == 1 {
			st.DeadlineHit = true
			break
		}
		st.Levels = append(st.Levels, len(next))
		st.CompletedDepth = depth
		frontier = next
		foundMu.Lock()
		nf := len(st.Found)
		foundMu.Unlock()
		if nf >= opt.MaxFound {
			break
		}
	}
	st.States, st.Transitions, st.ReplayChecks = states, trans, rchecks
	st.Exhaustive = len(frontier) == 0 && !st.DeadlineHit
	return st, nil
}
