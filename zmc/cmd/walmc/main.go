// walmc: C05 — WAL crash-image enumeration.
package main

import (
	"flag"
	"fmt"
	"os"
	"os/exec"
	"path/filepath"
	"runtime"
	"strconv"
	"strings"
	"sync"
	"time"

	"encoding/json"

	"github.com/youzan/ZanRedisDB/wal"
	"zmc/ev"
	"zmc/walmc"
)

func main() {
	tier := flag.String("tier", "quick", "")
	replay := flag.String("replay", "", "")
	shard := flag.String("shard", "", "internal: i/n")
	flag.Parse()
	if *replay != "" {
		fmt.Println("see", *replay)
		os.Exit(1)
	}
	wal.VerifSilence()
	wal.SegmentSizeBytes = 1024
	quick := *tier == "quick"
	walmc.AllOffsets = !quick
	depth := 4
	if quick {
		depth = 3
	}
	hs := walmc.Histories(walmc.Alphabet(!quick), depth)
	hs = append(hs, walmc.DeepHistories()...)
	if *shard != "" {
		runShard(*shard, hs, quick)
		return
	}
	// the sync observer is a process-wide hook: shard by process
	n := runtime.NumCPU()
	col := ev.NewCollector("C05", *tier, "fault_enumeration")
	var mu sync.Mutex
	var wg sync.WaitGroup
	var tot walmc.Stats
	exhaustive := true
	for i := 0; i < n; i++ {
		wg.Add(1)
		go func(i int) {
			defer wg.Done()
			out, err := exec.Command(os.Args[0], "-tier", *tier, "-shard", fmt.Sprintf("%d/%d", i, n)).Output()
			mu.Lock()
			defer mu.Unlock()
			if err != nil {
				fmt.Println("INFRA: shard", i, "failed:", err)
				exhaustive = false
				return
			}
			for _, l := range strings.Split(string(out), "\n") {
				switch {
				case strings.HasPrefix(l, "STATS "):
					var s walmc.Stats
					json.Unmarshal([]byte(l[6:]), &s)
					tot.Histories += s.Histories
					tot.Observations += s.Observations
					tot.Images += s.Images
					tot.ReopenOK += s.ReopenOK
					tot.ReopenErr += s.ReopenErr
					tot.Repaired += s.Repaired
					tot.BitFlips += s.BitFlips
					tot.FlipErr += s.FlipErr
					tot.FlipOK += s.FlipOK
				case strings.HasPrefix(l, "VIOL "):
					var v ev.Violation
					json.Unmarshal([]byte(l[5:]), &v)
					col.Add(v)
				case strings.HasPrefix(l, "INCOMPLETE"):
					exhaustive = false
				}
			}
		}(i)
	}
	wg.Wait()
	fmt.Printf("[C05] histories=%d (depth<=%d) observation points=%d crash images=%d (reopen ok %d, error %d, repaired %d) bit flips=%d (error %d, ok %d)\n", tot.Histories, depth, tot.Observations, tot.Images, tot.ReopenOK, tot.ReopenErr, tot.Repaired, tot.BitFlips, tot.FlipErr, tot.FlipOK)
	col.Set("evaluations", tot.Images+tot.BitFlips)
	col.Set("distinct_nontrivial", tot.Histories)
	col.Set("histories", tot.Histories)
	col.Set("observation_points", tot.Observations)
	col.Set("crash_images", tot.Images)
	col.Set("reopen_outcomes", map[string]int{"ok": tot.ReopenOK, "error": tot.ReopenErr, "after_repair": tot.Repaired})
	col.Set("bit_flips", map[string]int{"total": tot.BitFlips, "error": tot.FlipErr, "accepted": tot.FlipOK})
	col.Set("exhaustive", exhaustive)
	col.Set("rule", "every save history up to the depth over the alphabet (entries of several payload sizes incl. sector-edge sizes, overwrite of the last index with a term bump, commit-only hard state, snapshot marker, clean close+reopen [+Sync, ReleaseLockTo, larger saves in thorough]) on the real wal package with 1 KiB segments, in both fsync modes; observation points = every real fsync/fdatasync (observer in pkg/fileutil through a derived file) and every API return; images per point: process kill (all written bytes), every byte truncation of the unsynced tail (zero-filled and shortened), zeroed subsets of unsynced 512-byte sectors, and single-bit flips of the whole synced image for the deepest histories; each image reopened with openWAL's procedure; oracle: error, or the fold of a record prefix that contains everything under a met durability obligation (bit flips: any prefix). non-trivial = distinct histories")
	col.Sample(map[string]interface{}{"alphabet": fmt.Sprint(walmc.Alphabet(!quick))})
	col.Sample(map[string]interface{}{"history": "[save(2 x 500B) save(1 x 513B bump) commit] -> segment cut inside the second save; 9 observation points; ~1.1k images"})
	col.Assume = []string{"ordered metadata (a renamed segment is visible once the directory was fsynced; un-renamed .tmp segments are ignored)", "512-byte sector atomicity", "single-bit corruption only"}
	if (tot.ReopenErr == 0 || tot.ReopenOK == 0) && col.NumViolationSigs() == 0 {
		fmt.Println("INFRA: vacuous (only one reopen outcome observed)")
		col.Finish()
		os.Exit(2)
	}
	os.Exit(col.Finish())
}

func runShard(spec string, hs [][]walmc.Op, quick bool) {
	parts := strings.Split(spec, "/")
	i, _ := strconv.Atoi(parts[0])
	n, _ := strconv.Atoi(parts[1])
	scratch := filepath.Join("/dev/shm/zrverif", fmt.Sprintf("wal-%d", os.Getpid()))
	defer os.RemoveAll(scratch)
	col := ev.NewCollector("C05", "quick", "fault_enumeration")
	var st walmc.Stats
	dl := ev.NewDeadline(ev.EnvDur("VERIF_BUDGET", map[bool]time.Duration{true: 150 * time.Second, false: 20 * time.Minute}[quick]))
	walmc.FlipDeadline = dl.Hit
	maxLen := 0
	for _, h := range hs {
		if len(h) > maxLen {
			maxLen = len(h)
		}
	}
	flipBudget := 2
	if quick {
		flipBudget = 1
		if i%4 != 0 {
			flipBudget = 0 // quick: four shards flip every bit of one deepest history each
		}
	}
	for k, h := range hs {
		if k%n != i {
			continue
		}
		if dl.Hit() {
			fmt.Println("INCOMPLETE")
			break
		}
		for _, opt := range []bool{false, true} {
			// bit flips: for a few of the deepest histories of this shard, default mode
			flips := !opt && len(h) == maxLen && flipBudget > 0 && (k/n)%5 == 2
			if flips {
				flipBudget--
			}
			walmc.CheckHistory(col, scratch, h, opt, flips, &st)
		}
	}
	if st.FlipsCut > 0 {
		fmt.Println("INCOMPLETE")
	}
	b, _ := json.Marshal(st)
	fmt.Println("STATS " + string(b))
	for _, v := range col.Violations() {
		b, _ := json.Marshal(v)
		fmt.Println("VIOL " + string(b))
	}
}
