package storemc

import (
	"fmt"
	"sort"
	"strings"

	"github.com/youzan/ZanRedisDB/common"
	"github.com/youzan/ZanRedisDB/node"
	"github.com/youzan/ZanRedisDB/raft/raftpb"
	"zmc/ev"
)

// C19: cross-cluster log replay at the apply seam. The receiver's own raft log carries
// entries of type FromClusterSyncer (OrigCluster/OrigTerm/OrigIndex); BFS over delivery
// sequences with duplicates, stale re-sends, overlapping batches, snapshot + restart.

type srcEntry struct {
	term, index uint64
	ts          int64
	cmd         []string
}

// source log of cluster c: non-idempotent commands; APPEND of the entry number makes
// skips, repeats and re-orderings readable from the data.
func sourceLog(c string) []srcEntry {
	base := int64(1600000000) * 1e9
	key := "t:log-" + c
	return []srcEntry{
		{1, 1, base + 1, []string{"append", key, "1"}},
		{1, 2, base + 2, []string{"append", key, "2"}},
		{2, 3, base + 3, []string{"append", key, "3"}}, // term change
		{2, 4, base + 4, []string{"append", key, "4"}},
		{2, 5, base + 5, []string{"append", key, "5"}},
	}
}

func (s *Store) applyNode() *node.KVNode {
	return node.VerifNewApplyNode(s.SM, NS+"-0", s.Opt.Policy, s.W)
}

func syncerEntry(ownIndex uint64, cluster string, se srcEntry, id uint64) raftpb.Entry {
	var reqs node.BatchInternalRaftRequest
	reqs.Timestamp = se.ts
	reqs.Type = node.FromClusterSyncer
	reqs.OrigCluster, reqs.OrigTerm, reqs.OrigIndex = cluster, se.term, se.index
	var r node.InternalRaftRequest
	r.Header.ID = id
	r.Header.Timestamp = se.ts
	r.Data = common.BuildCommand(toArgs(se.cmd)).Raw
	reqs.Reqs = append(reqs.Reqs, r)
	reqs.ReqNum = 1
	d, err := reqs.Marshal()
	if err != nil {
		panic(err)
	}
	return raftpb.Entry{Type: raftpb.EntryNormal, Term: 1, Index: ownIndex, Data: d}
}

type syncState struct {
	dump     Dump
	meta     []byte         // live synced positions (serialised)
	log      []raftpb.Entry // own log since the last snapshot
	snapDump Dump           // snapshot image
	snapMeta []byte
	next     uint64 // next own index
	gapUsed  bool
	path     []string
}

type SyncStats struct {
	States, Transitions, Restarts, Ignored, Applied int
	DeadlineHit                                     bool
}

func posOf(nd *node.KVNode, c string) (uint64, uint64) {
	t, i, _ := nd.GetRemoteClusterSyncedRaft(c)
	return t, i
}

func RunSyncer(s *Store, col *ev.Collector, label string, depth int, dl ev.Deadline) SyncStats {
	var st SyncStats
	clusters := []string{"A", "B"}
	logs := map[string][]srcEntry{"A": sourceLog("A"), "B": sourceLog("B")}
	s.Load(Dump{})
	nd0 := s.applyNode()
	emptyMeta := nd0.VerifSnapshotMeta()
	start := &syncState{dump: Dump{}, meta: emptyMeta, snapDump: Dump{}, snapMeta: emptyMeta, next: 1}
	key := func(x *syncState) string {
		var sb strings.Builder
		sb.WriteString(x.dump.Key(skipMetaKey))
		sb.Write(x.meta)
		sb.WriteString("|snap:" + x.snapDump.Key(skipMetaKey))
		sb.Write(x.snapMeta)
		fmt.Fprintf(&sb, "|log:%d|gap:%v", len(x.log), x.gapUsed)
		for _, e := range x.log {
			sb.Write(e.Data)
		}
		return sb.String()
	}
	seen := map[string]bool{key(start): true}
	frontier := []*syncState{start}
	st.States = 1
	report := func(x *syncState, e, sig, what string) {
		col.Add(ev.Violation{Property: "C19", Signature: "C19|" + sig, What: fmt.Sprintf("%s: after %v then %s: %s", label, x.path, e, what),
			Replay: map[string]interface{}{"label": label, "engine": s.Opt.Engine, "path": append(append([]string(nil), x.path...), e)}})
	}
	// the data oracle: the log key of cluster c must read "12..k" and k must be the synced index
	checkData := func(x *syncState, e string, nd *node.KVNode, gapPath bool) bool {
		ok := true
		for _, c := range clusters {
			v := s.Read("get", "t:log-"+c)
			val := ""
			if v.Kind == "bulk" {
				val = v.S
			}
			_, idx := posOf(nd, c)
			want := "12345"[:idx]
			if val != want {
				sig := "data-not-prefix-applied-once"
				switch {
				case gapPath:
					sig = "gap|dropped-middle-proposal"
				case len(val) > 0 && strings.Contains(val[1:], val[:1]) || hasRepeat(val):
					sig = "entry-applied-twice"
				case !isSorted(val):
					sig = "entries-out-of-order"
				}
				report(x, e, sig, fmt.Sprintf("cluster %s: data shows source entries %q applied, synced position is index %d (expected data %q)", c, val, idx, want))
				ok = false
			}
		}
		return ok
	}
	for d := 1; d <= depth && len(frontier) > 0; d++ {
		var next []*syncState
		for _, x := range frontier {
			if dl.Hit() {
				st.DeadlineHit = true
				return st
			}
			type evt struct {
				name     string
				cluster  string
				from, to int // source entries [from,to] (1-based), 0 = not a delivery
				// snapFirst: a snapshot is begun before this delivery (positions cloned, data image taken) and
				// serialised after it, as the snapshot goroutine of the raft node does next to the apply loop
				snapFirst bool
			}
			var evs []evt
			for _, c := range clusters {
				s.Load(x.dump)
				nd := s.applyNode()
				nd.VerifRestoreSnapshotMeta(x.meta)
				_, pos := posOf(nd, c)
				n := len(logs[c])
				for i := 1; i <= n; i++ {
					if i > int(pos)+1 {
						// an entry ahead of the position: only "the one proposal in between was
						// dropped" is a producible receiver log (pipelined ApplyRaftReqs), budget 1
						if i == int(pos)+2 && !x.gapUsed && c == "A" {
							evs = append(evs, evt{fmt.Sprintf("deliver %s#%d (proposal of #%d dropped)", c, i, i-1), c, i, i, false})
						}
						continue
					}
					evs = append(evs, evt{fmt.Sprintf("deliver %s#%d", c, i), c, i, i, false})
					if c == "A" {
						for j := i + 1; j <= n && j <= i+2; j++ {
							if i <= int(pos)+1 {
								evs = append(evs, evt{fmt.Sprintf("deliver-batch %s#%d..%d", c, i, j), c, i, j, false})
							}
						}
					}
				}
			}
			for _, d := range append([]evt(nil), evs...) {
				d.snapFirst = true
				d.name = "snapshot begun; " + d.name + "; snapshot written"
				evs = append(evs, d)
			}
			evs = append(evs, evt{name: "snapshot"}, evt{name: "restart"})
			for _, e := range evs {
				s.Load(x.dump)
				nd := s.applyNode()
				if err := nd.VerifRestoreSnapshotMeta(x.meta); err != nil {
					panic(err)
				}
				n := &syncState{log: append([]raftpb.Entry(nil), x.log...), snapDump: x.snapDump, snapMeta: x.snapMeta, next: x.next, gapUsed: x.gapUsed, path: append(append([]string(nil), x.path...), e.name)}
				st.Transitions++
				before := map[string][2]uint64{}
				for _, c := range clusters {
					t, i := posOf(nd, c)
					before[c] = [2]uint64{t, i}
				}
				good := true
				switch {
				case e.from > 0:
					if strings.Contains(e.name, "dropped") {
						n.gapUsed = true
					}
					var pending *node.VerifSnapHandle
					if e.snapFirst {
						n.snapDump = s.Dump()
						pending = nd.VerifBeginSnapshotMeta()
						n.log = nil
					}
					batch := nd.VerifBatchOperator()
					for i := e.from; i <= e.to; i++ {
						ent := syncerEntry(n.next, e.cluster, logs[e.cluster][i-1], 0)
						n.next++
						n.log = append(n.log, ent)
						nd.VerifApplyEntry(ent, false, batch)
					}
					batch.CommitBatch()
					if pending != nil {
						n.snapMeta = pending.Data()
					}
				case e.name == "snapshot":
					n.snapDump = s.Dump()
					n.snapMeta = nd.VerifSnapshotMeta()
					n.log = nil
				case e.name == "restart":
					st.Restarts++
					preDump := s.Dump().Key(skipMetaKey)
					preMeta := string(nd.VerifSnapshotMeta())
					s.Load(x.snapDump)
					nd = s.applyNode()
					if err := nd.VerifRestoreSnapshotMeta(x.snapMeta); err != nil {
						report(x, e.name, "snapshot-meta-unreadable", err.Error())
						continue
					}
					batch := nd.VerifBatchOperator()
					for _, ent := range x.log {
						nd.VerifApplyEntry(ent, true, batch)
					}
					batch.CommitBatch()
					if got := s.Dump().Key(skipMetaKey); got != preDump {
						report(x, e.name, "restart|data-differs", fmt.Sprintf("after restoring the snapshot and replaying %d own log entries the data differs from the state before the restart (log-A now %v)", len(x.log), s.Read("get", "t:log-A")))
						good = false
					}
					if got := string(nd.VerifSnapshotMeta()); got != preMeta {
						report(x, e.name, "restart|position-differs", fmt.Sprintf("synced positions after restart %s, before %s", got, preMeta))
						good = false
					}
				}
				// position monotone
				for _, c := range clusters {
					t, i := posOf(nd, c)
					if t < before[c][0] || i < before[c][1] {
						report(x, e.name, "position-moves-backwards", fmt.Sprintf("cluster %s position (%d,%d) -> (%d,%d)", c, before[c][0], before[c][1], t, i))
						good = false
					}
					if i > before[c][1] {
						st.Applied++
					} else if e.from > 0 && e.cluster == c {
						st.Ignored++
					}
				}
				if !checkData(x, e.name, nd, n.gapUsed) {
					good = false
				}
				if !good {
					continue
				}
				n.dump = s.Dump()
				n.meta = nd.VerifSnapshotMeta()
				if k := key(n); !seen[k] {
					seen[k] = true
					st.States++
					next = append(next, n)
				}
			}
		}
		frontier = next
	}
	return st
}

func hasRepeat(v string) bool {
	seen := map[rune]bool{}
	for _, r := range v {
		if seen[r] {
			return true
		}
		seen[r] = true
	}
	return false
}

func isSorted(v string) bool {
	b := []byte(v)
	return sort.SliceIsSorted(b, func(i, j int) bool { return b[i] < b[j] })
}
