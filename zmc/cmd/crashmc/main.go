// crashmc: C06, process-crash enumeration of a real data node (see zmc/crashmc).
package main

import (
	"encoding/json"
	"flag"
	"fmt"
	"os"
	"sort"
	"strings"
	"sync"
	"time"

	"zmc/crashmc"
	"zmc/ev"
	"zmc/servermc"
)

func funcOf(point string) string {
	// node/raft.go:raftNode.processReady:12@L1024 -> raftNode.processReady
	p := strings.Split(point, ":")
	if len(p) >= 2 {
		return p[1]
	}
	return point
}

func main() {
	tier := flag.String("tier", "quick", "")
	replay := flag.String("replay", "", "")
	child := flag.String("child", "", "internal")
	flag.Parse()
	servermc.Silence()
	if *child != "" {
		crashmc.ChildMain(*child)
		return
	}
	if *replay != "" {
		os.Exit(doReplay(*replay))
	}
	os.Exit(run(*tier))
}

func doReplay(file string) int {
	var rec struct {
		Replay struct {
			Target crashmc.Target `json:"target"`
		} `json:"replay"`
	}
	b, err := os.ReadFile(file)
	if err != nil || json.Unmarshal(b, &rec) != nil {
		fmt.Println("INFRA: cannot read", file)
		return 2
	}
	t := rec.Replay.Target
	script := crashmc.Script(t.Script)
	ref, _, err := crashmc.Reference(script, t.Engine, crashmc.SnapCount)
	if err != nil {
		fmt.Println("INFRA:", err)
		return 2
	}
	bad := 0
	for i := 0; i < 5; i++ {
		o := crashmc.Run(t, script, ref)
		fmt.Printf("run %d: %s -> reached=%v acked=%d issued=%d matched-prefix=%d %s %s\n", i, t, o.Reached, o.Acked, o.Issued, o.MatchedM, o.Violation, o.Detail)
		if o.Violation != "" {
			bad++
		}
	}
	if bad > 0 {
		return 1
	}
	return 0
}

func run(tier string) int {
	quick := tier == "quick"
	col := ev.NewCollector("C06", tier, "fault_enumeration")
	dl := ev.NewDeadline(ev.EnvDur("VERIF_BUDGET", map[bool]time.Duration{true: 600 * time.Second, false: 40 * time.Minute}[quick]))
	engines := []string{"pebble"}
	scripts := []string{"mixed", "counter"}
	if !quick {
		engines = []string{"pebble", "mem"} // not rocksdb: see DESIGN.md 9.1
	}
	type job struct {
		t      crashmc.Target
		script [][]string
		ref    []string
	}
	var jobs []job
	pointsSeen := map[string]bool{}
	var profSummary []interface{}
	for _, eng := range engines {
		for _, sn := range scripts {
			script := crashmc.Script(sn)
			ref, _, err := crashmc.Reference(script, eng, crashmc.SnapCount)
			if err != nil {
				fmt.Println("INFRA:", err)
				return 2
			}
			distinct := map[string]bool{}
			for _, d := range ref {
				distinct[d] = true
			}
			wins, restart, err := crashmc.Profile(script, eng, crashmc.SnapCount)
			if err != nil {
				fmt.Println("INFRA:", err)
				return 2
			}
			// which commands to crash in
			var cmds []int
			if quick {
				// deterministic selection: an early plain write, the first two commands whose window contains
				// snapshot work, the first whose window cuts a WAL segment, the first whose window purges a checkpoint
				pick := map[int]bool{1: true}
				need := map[string]int{"raftNode.beginSnapshot": 1, "WAL.cut": 1, "purgeOldCheckpoint": 1}
				for _, w := range wins {
					for _, p := range w.Points {
						f := funcOf(p)
						if need[f] > 0 && !pick[w.Cmd] {
							need[f]--
							pick[w.Cmd] = true
							break
						}
					}
				}
				if sn == "counter" {
					pick = map[int]bool{2: true}
				}
				for c := range pick {
					cmds = append(cmds, c)
				}
				sort.Ints(cmds)
			} else {
				for c := range script {
					cmds = append(cmds, c)
				}
			}
			nj := len(jobs)
			for _, c := range cmds {
				w := wins[c]
				for _, p := range w.Points {
					pointsSeen[p] = true
					ks := []int{1}
					if !quick {
						if w.Hits[p] >= 2 {
							ks = append(ks, 2)
						}
						if w.Hits[p] >= 3 {
							ks = append(ks, w.Hits[p])
						}
					}
					for _, k := range ks {
						for _, mode := range []string{"kill", "stall"} {
							jobs = append(jobs, job{crashmc.Target{Script: sn, Engine: eng, Cmd: c, Point: p, K: k, Mode: mode, Continue: sn == "counter" || !quick}, script, ref})
						}
					}
				}
			}
			// second generation: the restart is killed
			prefixes := []int{len(script) / 2}
			if !quick {
				prefixes = []int{7, len(script) / 2, len(script)}
			}
			if sn == "mixed" || !quick {
				for _, pre := range prefixes {
					for _, p := range restart.Points {
						pointsSeen[p] = true
						ks := []int{1}
						if !quick && restart.Hits[p] >= 2 {
							ks = append(ks, restart.Hits[p])
						}
						for _, k := range ks {
							jobs = append(jobs, job{crashmc.Target{Script: sn, Engine: eng, Cmd: -1, Prefix: pre, Point: p, K: k, Mode: "kill", Settle: true, Continue: true}, script, ref})
							if !quick {
								jobs = append(jobs, job{crashmc.Target{Script: sn, Engine: eng, Cmd: -1, Prefix: pre, Point: p, K: k, Mode: "kill", Graceful: true}, script, ref})
							}
						}
					}
				}
			}
			np := 0
			for _, w := range wins {
				np += len(w.Points)
			}
			profSummary = append(profSummary, map[string]interface{}{"engine": eng, "script": sn, "writes": len(script), "distinct_prefix_states": len(distinct),
				"commands_crashed_in": cmds, "points_reached_over_all_windows": np, "points_reached_during_restart": len(restart.Points), "targets": len(jobs) - nj})
			var sizes []int
			for _, c := range cmds {
				sizes = append(sizes, len(wins[c].Points))
			}
			fmt.Printf("[C06] %s/%s: %d writes (%d distinct prefix states), crash windows at commands %v (points reached %v), restart path reaches %d points -> %d targets\n", eng, sn, len(script), len(distinct), cmds, sizes, len(restart.Points), len(jobs)-nj)
		}
	}
	// run
	var mu sync.Mutex
	var wg sync.WaitGroup
	ch := make(chan job)
	reached, notReached, infra, done := 0, 0, 0, 0
	byFunc := map[string]int{}
	matched := map[string]int{}
	workers := 16
	complete := true
	for w := 0; w < workers; w++ {
		wg.Add(1)
		go func() {
			defer wg.Done()
			for j := range ch {
				o := crashmc.Run(j.t, j.script, j.ref)
				if o.Violation != "" {
					// a violation is re-run: it must be a property of the crash instant, not of the machine's load
					o2 := crashmc.Run(j.t, j.script, j.ref)
					if o2.Violation == "" {
						o3 := crashmc.Run(j.t, j.script, j.ref)
						if o3.Violation == "" {
							mu.Lock()
							col.Outcome("violation-not-reproduced:" + o.Sig)
							mu.Unlock()
							o = o3
						}
					}
				}
				mu.Lock()
				done++
				switch {
				case o.Sig == "infra":
					infra++
					fmt.Println("[C06] run skipped:", o.Detail)
				case o.Reached:
					reached++
					byFunc[funcOf(j.t.Point)]++
				default:
					notReached++
				}
				if o.Sig != "infra" && o.Violation == "" {
					matched[fmt.Sprintf("restarted-state = acked+%d", o.MatchedM-o.Acked)]++
				}
				if o.Violation != "" {
					col.Add(ev.Violation{Property: "C06", Signature: "C06|" + o.Sig + "|" + funcOf(j.t.Point) + "|" + j.t.Mode, What: fmt.Sprintf("%s: %s. %s", j.t, o.Violation, o.Detail),
						Replay: map[string]interface{}{"target": j.t}})
				}
				mu.Unlock()
			}
		}()
	}
	for _, j := range jobs {
		if dl.Hit() {
			complete = false
			break
		}
		ch <- j
	}
	close(ch)
	wg.Wait()
	fmt.Printf("[C06] crash runs=%d of %d targets (process died at the armed point in %d, point not reached again in %d, skipped %d) complete=%v\n", done, len(jobs), reached, notReached, infra, complete)
	col.Set("evaluations", done)
	col.Set("distinct_nontrivial", reached)
	col.Set("targets", len(jobs))
	col.Set("crash_points_instrumented_reached", len(pointsSeen))
	col.Set("died_at_point_by_function", byFunc)
	col.Set("restarted_state_distribution", matched)
	col.Set("profiles", profSummary)
	col.Set("exhaustive", complete && infra == 0)
	col.Set("rule", "a real data node process (1 namespace, 1 replica, SnapCount 5, 4 KiB WAL segments, KeepBackup 2) runs a scripted write history from a sequential client over its redis port; crash point = a call inserted before every statement of the persist/apply/snapshot/restart functions (tools/instrument/crashpoints.json); a profiling run records which points each command's processing window reaches; target = (command window, point, k-th hit, kill-now | stall-250ms-then-kill) and second generation targets (kill or stop after a prefix, then kill the restart at each point it reaches); after the crash the node is restarted on the same directory and everything it serves (reads + scans of every type) must equal the reference state after m writes for some acked <= m <= issued; a violation is re-run twice and only kept if it reproduces. non-trivial = the process really died at the armed point")
	if len(jobs) > 0 {
		col.Sample(map[string]interface{}{"target": jobs[0].t.String()})
		col.Sample(map[string]interface{}{"target": jobs[len(jobs)/2].t.String()})
		col.Sample(map[string]interface{}{"target": jobs[len(jobs)-1].t.String()})
	}
	col.Assume = []string{"process crash (kill -9): everything written to the OS survives; power loss of unsynced data is C05's subject at the WAL level", "one replica: the node is alone responsible for what it acknowledged"}
	if reached == 0 && col.NumViolationSigs() == 0 {
		fmt.Println("INFRA: vacuous (no crash point reached)")
		col.Finish()
		return 2
	}
	return col.Finish()
}
