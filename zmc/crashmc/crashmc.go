// Package crashmc: C06. A real data node process (one namespace, one replica, the real redis
// port, raft loop, WAL, snapshots, engine checkpoints) executes a scripted write history sent by
// a sequential client; it is killed at every enumerated crash instant — a crash point is a call
// inserted before every statement of the persist / apply / snapshot / restart functions
// (tools/instrument) — and restarted on the same directory. What the restarted node serves must be
// the effect of a prefix of the history that contains every acknowledged write.
package crashmc

import (
	"bufio"
	"fmt"
	"net"
	"os"
	"os/exec"
	"sort"
	"strconv"
	"strings"
	"sync"
	"syscall"
	"time"

	"github.com/youzan/ZanRedisDB/node"
	"github.com/youzan/ZanRedisDB/pkg/fileutil"
	"github.com/youzan/ZanRedisDB/rockredis"
	"github.com/youzan/ZanRedisDB/snap"
	"github.com/youzan/ZanRedisDB/wal"
	"zmc/servermc"
)

const NS = servermc.NS

// ---- child ---------------------------------------------------------------------------------

type hookState struct {
	mu        sync.Mutex
	armed     bool
	target    string
	k         int
	mode      string // kill | stall
	seen      int
	profiling bool
	hits      map[string]int
	order     []string
}

var hs = &hookState{hits: map[string]int{}}

const stallDur = 250 * time.Millisecond

func die() {
	syscall.Kill(os.Getpid(), syscall.SIGKILL)
	select {}
}

func hook(name string) {
	hs.mu.Lock()
	if hs.profiling {
		if hs.hits[name] == 0 {
			hs.order = append(hs.order, name)
		}
		hs.hits[name]++
	}
	if hs.armed && name == hs.target {
		hs.seen++
		if hs.seen == hs.k {
			mode := hs.mode
			hs.armed = false
			hs.mu.Unlock()
			if mode == "stall" {
				// this goroutine is arbitrarily slow here: every other goroutine runs on (the
				// apply loop answers the client, the snapshot goroutine finishes, ...), then the
				// process dies with this goroutine still in front of the statement
				time.Sleep(stallDur)
			}
			die()
		}
	}
	hs.mu.Unlock()
}

func arm(spec string) {
	// point|k|mode
	p := strings.Split(spec, "|")
	if len(p) != 3 {
		return
	}
	k, _ := strconv.Atoi(p[1])
	hs.mu.Lock()
	hs.armed, hs.target, hs.k, hs.mode, hs.seen = true, p[0], k, p[2], 0
	hs.mu.Unlock()
}

// ChildMain: spec = "port,dir,engine,snapcount".
func ChildMain(spec string) {
	sp := strings.Split(spec, ",")
	port, _ := strconv.Atoi(sp[0])
	dir, eng := sp[1], sp[2]
	snapCount, _ := strconv.Atoi(sp[3])
	lim := syscall.Rlimit{Cur: 12 << 30, Max: 12 << 30}
	syscall.Setrlimit(syscall.RLIMIT_AS, &lim)
	wal.SegmentSizeBytes = 4 * 1024
	node.VerifCrashHook, rockredis.VerifCrashHook, wal.VerifCrashHook, fileutil.VerifCrashHook, snap.VerifCrashHook = hook, hook, hook, hook, hook
	if os.Getenv("VERIF_CRASH_PROFILE") != "" {
		hs.profiling = true
	}
	if at := os.Getenv("VERIF_CRASH_AT"); at != "" {
		arm(at)
	}
	n, err := servermc.StartWith(servermc.Opts{Port: port, Parts: 1, Dir: dir, Engine: eng, SnapCount: snapCount, KeepBackup: 2, KeepDir: true, TickMs: 5})
	if err != nil {
		fmt.Println("CHILD-ERROR", err)
		os.Exit(3)
	}
	ln, err := net.Listen("tcp", fmt.Sprintf("127.0.0.1:%d", port+9))
	if err != nil {
		fmt.Println("CHILD-ERROR", err)
		os.Exit(3)
	}
	fmt.Println("CHILD-READY")
	for {
		c, err := ln.Accept()
		if err != nil {
			return
		}
		go func(c net.Conn) {
			defer c.Close()
			br := bufio.NewReader(c)
			for {
				l, err := br.ReadString('\n')
				if err != nil {
					return
				}
				l = strings.TrimSpace(l)
				switch {
				case strings.HasPrefix(l, "arm "):
					arm(l[4:])
					fmt.Fprintln(c, "ok")
				case l == "profile-reset":
					hs.mu.Lock()
					hs.profiling = true
					hs.hits = map[string]int{}
					hs.order = nil
					hs.mu.Unlock()
					fmt.Fprintln(c, "ok")
				case l == "profile-get":
					hs.mu.Lock()
					var parts []string
					for _, n := range hs.order {
						parts = append(parts, fmt.Sprintf("%s=%d", n, hs.hits[n]))
					}
					hs.mu.Unlock()
					fmt.Fprintln(c, strings.Join(parts, ";"))
				case l == "stop":
					n.Stop()
					fmt.Fprintln(c, "ok")
					os.Exit(0)
				}
			}
		}(c)
	}
}

// ---- parent side: one data node process ----------------------------------------------------

type Proc struct {
	cmd    *exec.Cmd
	Port   int
	Dir    string
	Conn   *servermc.Conn
	admin  net.Conn
	abr    *bufio.Reader
	exited chan struct{}
	stderr string
}

type StartResult struct {
	P       *Proc
	Died    bool   // the child ended before it was ready (a crash point on the start path, or a failure to come up)
	Killed  bool   // ended by SIGKILL (ours)
	Profile string // "name=count;..." printed at the end of the start-up when profiling
	Err     error
	Stderr  string
}

// StartProc starts a child on dir. env: extra environment (crash point arming / profiling).
func StartProc(dir, engine string, snapCount int, env []string) StartResult {
	var last StartResult
	for try := 0; try < 4; try++ {
		last = startProcOnce(dir, engine, snapCount, env, servermc.FreeBase())
		if last.Err == nil || last.Killed {
			return last
		}
		// a port could not be bound (another check running): try another base
		if !strings.Contains(last.Stderr+last.Err.Error(), "address already in use") && !strings.Contains(last.Stderr+last.Err.Error(), "bind") {
			return last
		}
		time.Sleep(200 * time.Millisecond)
	}
	return last
}

func startProcOnce(dir, engine string, snapCount int, env []string, port int) StartResult {
	cmd := exec.Command(os.Args[0], "-child", fmt.Sprintf("%d,%s,%s,%d", port, dir, engine, snapCount))
	cmd.Env = append(os.Environ(), env...)
	cmd.SysProcAttr = &syscall.SysProcAttr{Pdeathsig: syscall.SIGKILL}
	out, err := cmd.StdoutPipe()
	if err != nil {
		return StartResult{Err: err}
	}
	errFile, _ := os.CreateTemp("/dev/shm", "zrverif-c06-stderr-")
	if errFile != nil {
		cmd.Stderr = errFile
		defer func() { errFile.Close(); os.Remove(errFile.Name()) }()
	}
	if err := cmd.Start(); err != nil {
		return StartResult{Err: err}
	}
	p := &Proc{cmd: cmd, Port: port, Dir: dir, exited: make(chan struct{})}
	ready := make(chan error, 1)
	go func() {
		br := bufio.NewReader(out)
		signalled := false
		for {
			l, err := br.ReadString('\n')
			if err != nil {
				if !signalled {
					ready <- fmt.Errorf("child ended before ready")
				}
				return
			}
			if !signalled && strings.HasPrefix(l, "CHILD-READY") {
				signalled = true
				ready <- nil
			}
			if !signalled && strings.HasPrefix(l, "CHILD-ERROR") {
				signalled = true
				ready <- fmt.Errorf("%s", strings.TrimSpace(l))
			}
		}
	}()
	go func() { cmd.Wait(); close(p.exited) }()
	readStderr := func() string {
		if errFile == nil {
			return ""
		}
		b, _ := os.ReadFile(errFile.Name())
		if len(b) > 4000 {
			b = b[:4000]
		}
		return string(b)
	}
	select {
	case err := <-ready:
		if err != nil {
			select {
			case <-p.exited:
			case <-time.After(5 * time.Second):
				cmd.Process.Kill()
				<-p.exited
			}
			killed := false
			if ws, ok := cmd.ProcessState.Sys().(syscall.WaitStatus); ok && ws.Signaled() && ws.Signal() == syscall.SIGKILL {
				killed = true
			}
			return StartResult{Died: true, Killed: killed, Err: err, Stderr: readStderr()}
		}
	case <-time.After(120 * time.Second):
		cmd.Process.Kill()
		<-p.exited
		return StartResult{Died: true, Err: fmt.Errorf("not ready after 120 s"), Stderr: readStderr()}
	}
	p.Conn, err = servermc.Dial(port)
	if err != nil {
		p.Kill()
		return StartResult{Err: err}
	}
	p.admin, err = net.Dial("tcp", fmt.Sprintf("127.0.0.1:%d", port+9))
	if err != nil {
		p.Kill()
		return StartResult{Err: err}
	}
	p.abr = bufio.NewReader(p.admin)
	return StartResult{P: p}
}

func (p *Proc) Admin(cmd string) (string, error) {
	p.admin.SetDeadline(time.Now().Add(60 * time.Second))
	if _, err := fmt.Fprintln(p.admin, cmd); err != nil {
		return "", err
	}
	l, err := p.abr.ReadString('\n')
	return strings.TrimSpace(l), err
}

func (p *Proc) Kill() {
	p.cmd.Process.Kill()
	<-p.exited
	p.closeConns()
}

func (p *Proc) closeConns() {
	if p.Conn != nil {
		p.Conn.Close()
	}
	if p.admin != nil {
		p.admin.Close()
	}
}

// Stop: graceful stop (the node closes its WAL and engine).
func (p *Proc) Stop() {
	fmt.Fprintln(p.admin, "stop")
	select {
	case <-p.exited:
	case <-time.After(30 * time.Second):
		p.cmd.Process.Kill()
		<-p.exited
	}
	p.closeConns()
}

func (p *Proc) WaitExit(d time.Duration) bool {
	select {
	case <-p.exited:
		p.closeConns()
		return true
	case <-time.After(d):
		return false
	}
}

// ---- scripts and the logical dump ---------------------------------------------------------------

func pad(s string, n int) string {
	if len(s) >= n {
		return s
	}
	return s + strings.Repeat(".", n-len(s))
}

// Script: a write history over a small key set of every data type; values grow so that WAL
// segments (4 KiB) are crossed, every 5th raft entry triggers a snapshot (SnapCount 5).
func Script(name string) [][]string {
	k := func(s string) string { return NS + ":t:" + s }
	var out [][]string
	switch name {
	case "mixed":
		for i := 0; i < 40; i++ {
			switch i % 8 {
			case 0:
				out = append(out, []string{"incr", k("cnt")})
			case 1:
				out = append(out, []string{"set", k("kv"), pad(fmt.Sprintf("v%d", i), 20+(i%3)*300)})
			case 2:
				out = append(out, []string{"hset", k("h"), fmt.Sprintf("f%d", i%3), fmt.Sprintf("v%d", i)})
			case 3:
				out = append(out, []string{"rpush", k("l"), fmt.Sprintf("e%d", i)})
			case 4:
				if i%16 == 4 {
					// a type whose writes sit in a write-back cache until a checkpoint flushes them
					// (its own table: a key scan reads the engine and does not see a key that only lives in the cache yet,
					// so the listing of table t would differ between a running and a restarted node for that reason alone)
					out = append(out, []string{"pfadd", NS + ":hll:p", fmt.Sprintf("e%d", i)})
				} else {
					out = append(out, []string{"sadd", k("s"), fmt.Sprintf("m%d", i)})
				}
			case 5:
				out = append(out, []string{"zadd", k("z"), strconv.Itoa(i), fmt.Sprintf("m%d", i%4)})
			case 6:
				out = append(out, []string{"lpop", k("l")})
			case 7:
				if i%16 == 7 {
					out = append(out, []string{"del", k("kv")})
				} else {
					out = append(out, []string{"hdel", k("h"), fmt.Sprintf("f%d", i%3)})
				}
			}
		}
	case "counter":
		// every prefix is distinguishable: value-returning writes only
		for i := 0; i < 24; i++ {
			switch i % 4 {
			case 0:
				out = append(out, []string{"incr", k("cnt")})
			case 1:
				out = append(out, []string{"append", k("log"), pad(fmt.Sprintf("<%d>", i), 8+(i%5)*150)})
			case 2:
				out = append(out, []string{"hincrby", k("h"), "n", "1"})
			case 3:
				out = append(out, []string{"rpush", k("l"), fmt.Sprintf("e%d", i)})
			}
		}
	}
	return out
}

var dumpReads = func() [][]string {
	k := func(s string) string { return NS + ":t:" + s }
	return [][]string{{"get", k("cnt")}, {"get", k("kv")}, {"get", k("log")}, {"hgetall", k("h")}, {"hlen", k("h")}, {"lrange", k("l"), "0", "-1"}, {"llen", k("l")},
		{"smembers", k("s")}, {"scard", k("s")}, {"pfcount", NS + ":hll:p"}, {"zrange", k("z"), "0", "-1", "withscores"}, {"zcard", k("z")},
		{"advscan", NS + ":t:", "kv", "count", "100"}, {"advscan", NS + ":t:", "hash", "count", "100"}, {"advscan", NS + ":t:", "list", "count", "100"},
		{"advscan", NS + ":t:", "set", "count", "100"}, {"advscan", NS + ":t:", "zset", "count", "100"}}
}()

// LogicalDump: what the node serves, through the redis port.
func LogicalDump(c *servermc.Conn) (string, error) {
	var sb strings.Builder
	for _, r := range dumpReads {
		rep, err := c.Do(r...)
		if err != nil {
			return "", err
		}
		s := rep.String()
		if len(s) > 60 && (r[0] == "get") {
			s = fmt.Sprintf("%s...(%d bytes, sum %d)", s[:24], len(s), sum(s))
		}
		fmt.Fprintf(&sb, "%s=%s\n", strings.Join(r[:2], " "), s)
	}
	return sb.String(), nil
}

func sum(s string) int {
	h := 0
	for i := 0; i < len(s); i++ {
		h = h*31 + int(s[i])
		h &= 0xffffff
	}
	return h
}

// Reference: the history on a clean node, dump after every prefix (differential reference: the same real store).
func Reference(script [][]string, engine string, snapCount int) (dumps []string, replies []string, err error) {
	dir, _ := os.MkdirTemp("/dev/shm", "zrverif-c06-")
	defer os.RemoveAll(dir)
	sr := StartProc(dir, engine, snapCount, nil)
	if sr.Err != nil {
		return nil, nil, fmt.Errorf("reference node: %v %s", sr.Err, sr.Stderr)
	}
	defer sr.P.Kill()
	d, err := LogicalDump(sr.P.Conn)
	if err != nil {
		return nil, nil, err
	}
	dumps = append(dumps, d)
	for _, c := range script {
		r, err := sr.P.Conn.Do(c...)
		if err != nil {
			return nil, nil, err
		}
		replies = append(replies, r.String())
		d, err := LogicalDump(sr.P.Conn)
		if err != nil {
			return nil, nil, err
		}
		dumps = append(dumps, d)
	}
	return dumps, replies, nil
}

type Window struct {
	Cmd    int            // index of the command whose processing window this is (-1: node start)
	Points []string       // in first-hit order
	Hits   map[string]int // hits inside the window
}

func parseProfile(s string) ([]string, map[string]int) {
	hits := map[string]int{}
	var order []string
	for _, p := range strings.Split(s, ";") {
		if i := strings.LastIndexByte(p, '='); i > 0 {
			n, _ := strconv.Atoi(p[i+1:])
			hits[p[:i]] = n
			order = append(order, p[:i])
		}
	}
	return order, hits
}

// Profile: which crash points are reached while each command is processed (window = from its issue
// to the issue of the next command, plus a settle time so that the asynchronous snapshot work it
// triggers is attributed to it), and during a restart after the whole history.
func Profile(script [][]string, engine string, snapCount int) (wins []Window, restart Window, err error) {
	dir, _ := os.MkdirTemp("/dev/shm", "zrverif-c06-")
	defer os.RemoveAll(dir)
	sr := StartProc(dir, engine, snapCount, nil)
	if sr.Err != nil {
		return nil, restart, fmt.Errorf("profile node: %v %s", sr.Err, sr.Stderr)
	}
	p := sr.P
	for i, c := range script {
		if _, err := p.Admin("profile-reset"); err != nil {
			p.Kill()
			return nil, restart, err
		}
		if _, err := p.Conn.Do(c...); err != nil {
			p.Kill()
			return nil, restart, err
		}
		time.Sleep(120 * time.Millisecond)
		s, err := p.Admin("profile-get")
		if err != nil {
			p.Kill()
			return nil, restart, err
		}
		order, hits := parseProfile(s)
		wins = append(wins, Window{Cmd: i, Points: order, Hits: hits})
	}
	p.Kill()
	// restart profile: the points hit from process start until the node is ready again
	sr = StartProc(dir, engine, snapCount, []string{"VERIF_CRASH_PROFILE=1"})
	if sr.Err != nil {
		return nil, restart, fmt.Errorf("profile restart: %v %s", sr.Err, sr.Stderr)
	}
	s, err := sr.P.Admin("profile-get")
	sr.P.Kill()
	if err != nil {
		return nil, restart, err
	}
	order, hits := parseProfile(s)
	restart = Window{Cmd: -1, Points: order, Hits: hits}
	return wins, restart, nil
}

// ---- one crash run ----------------------------------------------------------------------------------

type Target struct {
	Script   string
	Engine   string
	Cmd      int    // arm right before this command is issued; -1: arm at restart (after Prefix commands and a kill)
	Prefix   int    // for restart targets: number of commands executed (and acknowledged) before the first kill
	Point    string // crash point
	K        int    // k-th hit after arming
	Mode     string // kill | stall
	Settle   bool   // restart targets: let the node settle (snapshot work done) before the first kill
	Graceful bool   // restart targets: the first stop is graceful
	Continue bool   // after the check: go on with the history, kill at rest, restart again, check again
}

func (t Target) String() string {
	if t.Cmd >= 0 {
		return fmt.Sprintf("%s/%s: at command #%d, hit %d of %s, %s", t.Script, t.Engine, t.Cmd, t.K, t.Point, t.Mode)
	}
	how := "kill -9"
	if t.Graceful {
		how = "graceful stop"
	}
	return fmt.Sprintf("%s/%s: %s after %d commands, then during the restart hit %d of %s, %s", t.Script, t.Engine, how, t.Prefix, t.K, t.Point, t.Mode)
}

type Outcome struct {
	Reached   bool // the process died at the armed point
	Acked     int
	Issued    int
	Violation string // "" = fine
	Sig       string
	MatchedM  int
	Detail    string
}

const SnapCount = 5

// Run executes one target against the reference dumps.
func Run(t Target, script [][]string, ref []string) Outcome {
	dir, _ := os.MkdirTemp("/dev/shm", "zrverif-c06-")
	defer os.RemoveAll(dir)
	var o Outcome
	sr := StartProc(dir, t.Engine, SnapCount, nil)
	if sr.Err != nil {
		return Outcome{Violation: "", Detail: "INFRA: " + sr.Err.Error() + " " + sr.Stderr, Sig: "infra"}
	}
	p := sr.P
	died := false
	if t.Cmd >= 0 {
		for i, c := range script {
			if i == t.Cmd {
				if _, err := p.Admin(fmt.Sprintf("arm %s|%d|%s", t.Point, t.K, t.Mode)); err != nil {
					p.Kill()
					return Outcome{Sig: "infra", Detail: "INFRA: arm: " + err.Error()}
				}
			}
			o.Issued = i + 1
			_, err := p.Conn.Do(c...)
			if err != nil {
				died = true
				break
			}
			o.Acked = i + 1
			if i >= t.Cmd+6 {
				break // the armed point belongs to the window of command Cmd; a few more commands let late asynchronous hits happen
			}
		}
		if !died {
			// the point may be reached by asynchronous work after the last reply
			died = p.WaitExit(600 * time.Millisecond)
		}
		if !died {
			p.Kill()
			o.Reached = false
		} else {
			p.WaitExit(10 * time.Second)
			o.Reached = true
		}
	} else {
		for i := 0; i < t.Prefix; i++ {
			o.Issued = i + 1
			if _, err := p.Conn.Do(script[i]...); err != nil {
				p.Kill()
				return Outcome{Sig: "infra", Detail: "INFRA: prefix: " + err.Error()}
			}
			o.Acked = i + 1
		}
		if t.Settle || t.Graceful {
			time.Sleep(300 * time.Millisecond)
		}
		if t.Graceful {
			p.Stop()
		} else {
			p.Kill()
		}
		// second generation: the restart itself is killed at the armed point
		sr2 := StartProc(dir, t.Engine, SnapCount, []string{fmt.Sprintf("VERIF_CRASH_AT=%s|%d|%s", t.Point, t.K, t.Mode)})
		switch {
		case sr2.Died && sr2.Killed:
			o.Reached = true
		case sr2.Died:
			return Outcome{Acked: o.Acked, Issued: o.Issued, Reached: false, Violation: fmt.Sprintf("the node does not come back: %v; stderr: %s", sr2.Err, firstLines(sr2.Stderr, 6)), Sig: "restart-fails"}
		case sr2.Err != nil:
			return Outcome{Sig: "infra", Detail: "INFRA: " + sr2.Err.Error()}
		default:
			// came up without reaching the point; it may still be reached later (purge runs after start): give it a moment
			if sr2.P.WaitExit(400 * time.Millisecond) {
				o.Reached = true
			} else {
				sr2.P.Kill()
			}
		}
	}
	// restart on the same directory, no crash point
	sr3 := StartProc(dir, t.Engine, SnapCount, nil)
	if sr3.Err != nil {
		if strings.HasPrefix(sr3.Err.Error(), "INFRA") {
			return Outcome{Sig: "infra", Detail: sr3.Err.Error()}
		}
		o.Violation = fmt.Sprintf("the node does not come back after the crash: %v; stderr: %s", sr3.Err, firstLines(sr3.Stderr, 8))
		o.Sig = "restart-fails"
		return o
	}
	defer sr3.P.Kill()
	got, err := LogicalDump(sr3.P.Conn)
	if err != nil {
		o.Violation = "the restarted node does not answer reads: " + err.Error()
		o.Sig = "restart-unreadable"
		return o
	}
	o.MatchedM = -1
	for m := o.Acked; m <= o.Issued && m < len(ref); m++ {
		if ref[m] == got {
			o.MatchedM = m
			break
		}
	}
	if o.MatchedM < 0 {
		// classify: an older prefix (acknowledged writes lost), a later one, or no prefix at all
		where := "no prefix of the history"
		o.Sig = "not-a-prefix"
		for m := range ref {
			if ref[m] == got {
				if m < o.Acked {
					where = fmt.Sprintf("the state after only %d writes", m)
					o.Sig = "acknowledged-write-lost"
				} else {
					where = fmt.Sprintf("the state after %d writes (never issued)", m)
					o.Sig = "write-from-nowhere"
				}
				break
			}
		}
		o.Violation = fmt.Sprintf("%d writes acknowledged, %d issued; the restarted node serves %s", o.Acked, o.Issued, where)
		o.Detail = diffDump(ref[o.Acked], got)
		return o
	}
	if t.Continue {
		// second generation: the restarted node goes on with the history (crossing more snapshots), is killed
		// at rest and started a third time: it must come back again and serve the whole history
		for i := o.MatchedM; i < len(script); i++ {
			if _, err := sr3.P.Conn.Do(script[i]...); err != nil {
				o.Violation = fmt.Sprintf("after the restart write #%d of the history is not answered: %v", i, err)
				o.Sig = "restart-not-writable"
				return o
			}
		}
		time.Sleep(300 * time.Millisecond)
		sr3.P.Kill()
		sr4 := StartProc(dir, t.Engine, SnapCount, nil)
		if sr4.Err != nil {
			if strings.HasPrefix(sr4.Err.Error(), "INFRA") {
				return Outcome{Sig: "infra", Detail: sr4.Err.Error()}
			}
			o.Violation = fmt.Sprintf("the node came back once, went on with the history, was killed at rest and does not come back a second time: %v; stderr: %s", sr4.Err, firstLines(sr4.Stderr, 8))
			o.Sig = "second-restart-fails"
			return o
		}
		defer sr4.P.Kill()
		got2, err := LogicalDump(sr4.P.Conn)
		if err != nil || got2 != ref[len(script)] {
			o.Violation = fmt.Sprintf("after the second restart the node does not serve the whole history (%v)", err)
			o.Sig = "second-restart-wrong-data"
			if err == nil {
				o.Detail = diffDump(ref[len(script)], got2)
			}
			return o
		}
		if r, err := sr4.P.Conn.Do("incr", NS+":t:after"); err != nil || r.Kind != "int" || r.I != 1 {
			o.Violation = fmt.Sprintf("after the second restart the node does not accept a write: %v %v", r, err)
			o.Sig = "second-restart-not-writable"
		}
		return o
	}
	// the node must keep working: one more write and its effect
	if r, err := sr3.P.Conn.Do("incr", NS+":t:after"); err != nil || r.Kind != "int" || r.I != 1 {
		o.Violation = fmt.Sprintf("the restarted node does not accept a write: %v %v", r, err)
		o.Sig = "restart-not-writable"
	}
	return o
}

func firstLines(s string, n int) string {
	var out []string
	for _, l := range strings.Split(s, "\n") {
		if strings.HasPrefix(l, "panic:") || strings.HasPrefix(l, "fatal error:") || strings.Contains(l, "/repo/") {
			out = append(out, strings.TrimSpace(l))
			if len(out) >= n {
				break
			}
		}
	}
	if len(out) == 0 {
		ls := strings.Split(strings.TrimSpace(s), "\n")
		if len(ls) > n {
			ls = ls[len(ls)-n:]
		}
		out = ls
	}
	return strings.Join(out, " | ")
}

func diffDump(want, got string) string {
	w, g := strings.Split(want, "\n"), strings.Split(got, "\n")
	var out []string
	for i := range w {
		if i < len(g) && w[i] != g[i] {
			out = append(out, fmt.Sprintf("expected {%s} served {%s}", w[i], g[i]))
		}
	}
	sort.Strings(out)
	if len(out) > 4 {
		out = out[:4]
	}
	return strings.Join(out, "; ")
}
