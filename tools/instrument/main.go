// instrument: copy one Go source file, inserting a call verifCrashPoint("<label>:<func>:<n>")
// before every statement of the listed functions (methods are named Recv.Method; function
// literals inside them are instrumented too). The callee is provided per package by a
// //go:build verif shim. Line directives keep panics and stack traces pointing at the
// original file.
package main

import (
	"bytes"
	"flag"
	"fmt"
	"go/ast"
	"go/format"
	"go/parser"
	"go/token"
	"os"
	"strings"
)

func recvName(fd *ast.FuncDecl) string {
	if fd.Recv == nil || len(fd.Recv.List) == 0 {
		return fd.Name.Name
	}
	t := fd.Recv.List[0].Type
	if s, ok := t.(*ast.StarExpr); ok {
		t = s.X
	}
	if id, ok := t.(*ast.Ident); ok {
		return id.Name + "." + fd.Name.Name
	}
	return fd.Name.Name
}

type inst struct {
	label string
	fn    string
	n     int
	fset  *token.FileSet
	names []string
}

func (in *inst) call(pos token.Pos) ast.Stmt {
	in.n++
	name := fmt.Sprintf("%s:%s:%d@L%d", in.label, in.fn, in.n, in.fset.Position(pos).Line)
	in.names = append(in.names, name)
	return &ast.ExprStmt{X: &ast.CallExpr{Fun: ast.NewIdent("verifCrashPoint"), Args: []ast.Expr{&ast.BasicLit{Kind: token.STRING, Value: fmt.Sprintf("%q", name)}}}}
}

func (in *inst) list(stmts []ast.Stmt) []ast.Stmt {
	var out []ast.Stmt
	for _, s := range stmts {
		// a statement that calls nothing and touches no channel has no effect outside the goroutine:
		// dying in front of it is the same crash instant as dying in front of the next statement that has
		// one, so only those get a point (plus the first statement of every block)
		if _, isLabeled := s.(*ast.LabeledStmt); !isLabeled && (len(out) == 0 || effectful(s)) {
			out = append(out, in.call(s.Pos()))
		}
		in.stmt(s)
		out = append(out, s)
	}
	return out
}

// effectful: the statement's own header (not the bodies nested in it, they get their own points)
// contains a call, a channel operation, a go/defer/return or a select.
func effectful(s ast.Stmt) bool {
	has := func(n ast.Node) bool {
		found := false
		if n == nil {
			return false
		}
		ast.Inspect(n, func(x ast.Node) bool {
			switch v := x.(type) {
			case *ast.FuncLit:
				return false
			case *ast.CallExpr:
				found = true
			case *ast.UnaryExpr:
				if v.Op == token.ARROW {
					found = true
				}
			}
			return !found
		})
		return found
	}
	switch x := s.(type) {
	case *ast.GoStmt, *ast.DeferStmt, *ast.SendStmt, *ast.SelectStmt, *ast.ReturnStmt:
		return true
	case *ast.IfStmt:
		return (x.Init != nil && has(x.Init)) || has(x.Cond)
	case *ast.ForStmt:
		return (x.Init != nil && has(x.Init)) || (x.Cond != nil && has(x.Cond)) || (x.Post != nil && has(x.Post))
	case *ast.RangeStmt:
		return has(x.X)
	case *ast.SwitchStmt:
		return (x.Init != nil && has(x.Init)) || (x.Tag != nil && has(x.Tag))
	case *ast.TypeSwitchStmt:
		return has(x.Assign)
	case *ast.BlockStmt:
		return false
	case *ast.LabeledStmt:
		return effectful(x.Stmt)
	}
	return has(s)
}

func (in *inst) block(b *ast.BlockStmt) {
	if b != nil {
		b.List = in.list(b.List)
	}
}

// stmt descends into nested blocks and function literals.
func (in *inst) stmt(s ast.Stmt) {
	switch x := s.(type) {
	case *ast.BlockStmt:
		in.block(x)
	case *ast.IfStmt:
		in.exprs(x.Cond)
		in.block(x.Body)
		if x.Else != nil {
			in.stmt(x.Else)
		}
	case *ast.ForStmt:
		in.block(x.Body)
	case *ast.RangeStmt:
		in.block(x.Body)
	case *ast.SwitchStmt:
		for _, c := range x.Body.List {
			cc := c.(*ast.CaseClause)
			cc.Body = in.list(cc.Body)
		}
	case *ast.TypeSwitchStmt:
		for _, c := range x.Body.List {
			cc := c.(*ast.CaseClause)
			cc.Body = in.list(cc.Body)
		}
	case *ast.SelectStmt:
		for _, c := range x.Body.List {
			cc := c.(*ast.CommClause)
			cc.Body = in.list(cc.Body)
		}
	case *ast.LabeledStmt:
		in.stmt(x.Stmt)
	case *ast.GoStmt:
		in.exprs(x.Call)
	case *ast.DeferStmt:
		in.exprs(x.Call)
	case *ast.ExprStmt:
		in.exprs(x.X)
	case *ast.AssignStmt:
		for _, e := range x.Rhs {
			in.exprs(e)
		}
	case *ast.ReturnStmt:
		for _, e := range x.Results {
			in.exprs(e)
		}
	}
}

func (in *inst) exprs(e ast.Expr) {
	ast.Inspect(e, func(n ast.Node) bool {
		if fl, ok := n.(*ast.FuncLit); ok {
			in.block(fl.Body)
			return false
		}
		return true
	})
}

func main() {
	inF := flag.String("in", "", "source file to read")
	outF := flag.String("out", "", "file to write")
	label := flag.String("label", "", "label prefix (repository-relative path)")
	funcs := flag.String("funcs", "", "comma separated function names (Recv.Method or Func)")
	flag.Parse()
	want := map[string]bool{}
	for _, f := range strings.Split(*funcs, ",") {
		want[strings.TrimSpace(f)] = true
	}
	fset := token.NewFileSet()
	f, err := parser.ParseFile(fset, *inF, nil, parser.ParseComments)
	if err != nil {
		fmt.Println("parse:", err)
		os.Exit(2)
	}
	found := map[string]bool{}
	var all []string
	for _, d := range f.Decls {
		fd, ok := d.(*ast.FuncDecl)
		if !ok || fd.Body == nil {
			continue
		}
		n := recvName(fd)
		if !want[n] {
			continue
		}
		found[n] = true
		in := &inst{label: *label, fn: n, fset: fset}
		in.block(fd.Body)
		all = append(all, in.names...)
	}
	for n := range want {
		if !found[n] {
			fmt.Printf("function %s not found in %s\n", n, *inF)
			os.Exit(2)
		}
	}
	// comments are dropped on purpose: free-floating comments would be misplaced around inserted statements
	var keep []*ast.CommentGroup
	for _, c := range f.Comments {
		if c.End() < f.Package {
			keep = append(keep, c) // build constraints
		}
	}
	f.Comments = keep
	var buf bytes.Buffer
	if err := format.Node(&buf, fset, f); err != nil {
		fmt.Println("print:", err)
		os.Exit(2)
	}
	if err := os.WriteFile(*outF, buf.Bytes(), 0o644); err != nil {
		fmt.Println(err)
		os.Exit(2)
	}
	for _, n := range all {
		fmt.Println("POINT", n)
	}
}
