package main

import (
	"fmt"

	"github.com/youzan/ZanRedisDB/common"
	"zmc/storemc"
)

func main() {
	s := storemc.Open(storemc.Options{Engine: "mem-skiplist", Policy: common.LocalDeletion, DataVer: common.DefaultDataVer, Leader: true})
	ts := int64(1600000000) * 1e9
	for _, u := range storemc.AllUniverses() {
		for _, c := range u.Cmds {
			s.Load(storemc.Dump{})
			r1 := s.Write(ts, c...)
			r2 := s.Write(ts, c...)
			fmt.Printf("%-40v -> %v ; again -> %v\n", c, r1, r2)
		}
	}
	s.Destroy()
}
