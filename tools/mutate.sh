#!/bin/bash
# mutate.sh <patch.diff> <ID> [tier] — calibration: run check <ID> against /repo + patch.
# The patch is applied to copies via the build overlay (so runs can go in parallel and /repo
# is never touched). Output (evidence, replays) goes to /tmp/mutate-out/<patch>-<ID>/.
P=$(readlink -f "$1"); ID=$2; TIER=${3:-quick}
OUT=/tmp/mutate-out/$(basename "$P" .diff)-$ID
rm -rf "$OUT"; mkdir -p "$OUT"
VERIF_MUTATION="$P" VERIF_OUT="$OUT" /verif/check $ID $TIER > "$OUT/log" 2>&1
rc=$?
grep -E "^(VIOLATION|KNOWN-FINDING|INFRA)|signature:|what:" "$OUT/log" | cut -c1-400 | head -8
echo "exit=$rc ($(basename "$P") vs $ID $TIER)"
