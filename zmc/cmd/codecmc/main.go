// codecmc: C16 — raft stream codecs.
package main

import (
	"bufio"
	"flag"
	"fmt"
	"os"
	"os/exec"
	"strings"
	"syscall"
	"time"

	"zmc/codecmc"
	"zmc/ev"
)

func main() {
	tier := flag.String("tier", "quick", "")
	replay := flag.String("replay", "", "")
	child := flag.String("flipchild", "", "internal: codec:from:to")
	flag.Parse()
	if *child != "" {
		flipChild(*child)
		return
	}
	if *replay != "" {
		fmt.Println("see", *replay)
		os.Exit(1)
	}
	col := ev.NewCollector("C16", *tier, "model_checking")
	codecmc.Thorough = *tier == "thorough"
	t0 := time.Now()
	v2 := codecmc.RunV2(col)
	fmt.Printf("[C16] msgappv2: context states=%d transitions=%d (compact form %d) truncations=%d %.1fs\n", v2.States, v2.Transitions, v2.Compact, v2.Truncations, time.Since(t0).Seconds())
	t0 = time.Now()
	g := codecmc.RunGeneral(col)
	fmt.Printf("[C16] general codec: transitions=%d truncations=%d %.1fs\n", g.Transitions, g.Truncations, time.Since(t0).Seconds())
	t0 = time.Now()
	sz := codecmc.RunSizes(col)
	fmt.Printf("[C16] buffer-limit sizes: round trips=%d %.1fs\n", sz.Transitions, time.Since(t0).Seconds())
	// corruption: every single-bit flip, in worker subprocesses under an address-space limit
	flips, deaths := 0, 0
	outcomes := map[string]int{}
	for _, codec := range []string{"v2", "general"} {
		stream, _ := codecmc.FlipStream(codec)
		nbits := len(stream) * 8
		for from := 0; from < nbits; from += 256 {
			to := from + 256
			if to > nbits {
				to = nbits
			}
			res, ok := runChild(codec, from, to)
			if !ok {
				// a worker died: find the flip(s) that kill it
				for b := from; b < to; b++ {
					r1, ok1 := runChild(codec, b, b+1)
					if !ok1 {
						deaths++
						flips++
						col.Add(ev.Violation{Property: "C16", Signature: "C16|" + codec + "|bitflip|decoder-dies", What: fmt.Sprintf("%s codec: flipping bit %d of a %d-byte 3-message stream kills the decoding process (unbounded length field): %s", codec, b, len(stream), r1["death"]),
							Replay: map[string]interface{}{"codec": codec, "bit": b}})
						continue
					}
					for k, v := range r1 {
						res[k] = v
					}
				}
			}
			delete(res, "death")
			for k, v := range res {
				flips++
				bit := 0
				fmt.Sscan(k, &bit)
				cls := v
				if strings.HasPrefix(v, "different") {
					cls = "different"
					col.Add(ev.Violation{Property: "C16", Signature: "C16|" + codec + "|bitflip|undetected", What: fmt.Sprintf("%s codec: flipping bit %d (byte %d) of the stream is not detected: %s", codec, bit, bit/8, v),
						Replay: map[string]interface{}{"codec": codec, "bit": bit}})
				}
				if strings.HasPrefix(v, "panic") {
					cls = "panic"
					col.Add(ev.Violation{Property: "C16", Signature: "C16|" + codec + "|bitflip|decoder-panics", What: fmt.Sprintf("%s codec: flipping bit %d (byte %d) makes the decoder panic: %s", codec, bit, bit/8, v),
						Replay: map[string]interface{}{"codec": codec, "bit": bit}})
				}
				outcomes[codec+":"+cls]++
			}
		}
	}
	fmt.Printf("[C16] bit flips=%d outcomes=%v worker deaths=%d\n", flips, outcomes, deaths)
	col.Set("states", v2.States+g.States)
	col.Set("transitions", v2.Transitions+g.Transitions+sz.Transitions)
	col.Set("traces_validated_against_impl", v2.Transitions+g.Transitions+sz.Transitions)
	col.Set("truncation_points", v2.Truncations+g.Truncations)
	col.Set("compact_form_transitions", v2.Compact)
	col.Set("bit_flips", flips)
	col.Set("bit_flip_outcomes", outcomes)
	col.Set("exhaustive", true)
	col.Set("rule", "msgappv2: BFS to a fixpoint over the context state (term, index, from group, to group) shared by encoder and decoder; alphabet = raft-producible MsgApp over 3 raft groups sharing the stream x term/logterm {1,2} x index 0..3 x 0-2 entries x commit {0,2} (thorough: terms 1..3, index 0..5, 0-3 entries, commit {0,2,5}) + link heartbeat; each transition encoded and decoded by the real codec in that context, compared by re-marshalled bytes, contexts compared, and every proper prefix of the frame fed to a decoder (must fail). general codec: every message type with small field domains, all ordered pairs on one stream, every truncation. sizes: entry payloads around the 1 MiB buffer. corruption: every single-bit flip of a 3-message stream per codec in worker subprocesses with an address-space limit")
	col.Sample(map[string]interface{}{"v2_alphabet_size": len(codecmc.AppAlphabet()), "general_alphabet_size": len(codecmc.GeneralAlphabet())})
	col.Sample(map[string]interface{}{"example": "context {term 2 index 3 g1} + MsgApp g1 term=2 logterm=2 index=3 1 entry -> compact AppEntries frame; same message for g3 (same replica ids) -> full MsgApp frame"})
	if v2.Compact == 0 && col.NumViolationSigs() == 0 {
		fmt.Println("INFRA: vacuous (compact form never chosen)")
		col.Finish()
		os.Exit(2)
	}
	os.Exit(col.Finish())
}

func runChild(codec string, from, to int) (map[string]string, bool) {
	cmd := exec.Command(os.Args[0], "-flipchild", fmt.Sprintf("%s:%d:%d", codec, from, to))
	out, err := cmd.Output()
	res := map[string]string{}
	done := false
	sc := bufio.NewScanner(strings.NewReader(string(out)))
	sc.Buffer(make([]byte, 1<<20), 1<<20)
	for sc.Scan() {
		l := sc.Text()
		if l == "DONE" {
			done = true
			continue
		}
		if i := strings.IndexByte(l, ' '); i > 0 {
			res[l[:i]] = l[i+1:]
		}
	}
	if err != nil || !done {
		msg := ""
		if ee, ok := err.(*exec.ExitError); ok {
			lines := strings.Split(string(ee.Stderr), "\n")
			if len(lines) > 0 {
				msg = lines[0]
			}
		}
		res["death"] = msg
		return res, false
	}
	return res, true
}

func flipChild(spec string) {
	// bound the address space: a corrupted length field must not take the sandbox down
	lim := syscall.Rlimit{Cur: 8 << 30, Max: 8 << 30}
	syscall.Setrlimit(syscall.RLIMIT_AS, &lim)
	parts := strings.Split(spec, ":")
	var from, to int
	fmt.Sscan(parts[1], &from)
	fmt.Sscan(parts[2], &to)
	w := bufio.NewWriter(os.Stdout)
	for b := from; b < to; b++ {
		func() {
			defer func() {
				if r := recover(); r != nil {
					fmt.Fprintf(w, "%d panic: %v\n", b, r)
				}
			}()
			fmt.Fprintf(w, "%d %s\n", b, codecmc.DecodeFlipped(parts[0], b))
		}()
		w.Flush()
	}
	fmt.Fprintln(w, "DONE")
	w.Flush()
}
