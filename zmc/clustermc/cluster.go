// Package clustermc: C04. Three real KVNodes (raft loop, WAL, apply loop, state machine, the real
// write handlers with their waiters) of one namespace partition in one process. The explorer owns
// everything that is nondeterministic between them: which in-flight raft message is delivered next
// (or lost, or duplicated), which replica's clock ticks, when a client call starts, when a replica is
// stopped and restarted on its directory, when leadership is transferred. After every event the
// cluster runs to quiescence (every raft loop and apply loop idle, every client call either
// finished or parked on its waiter), so an execution is a deterministic function of the event list.
package clustermc

import (
	"bytes"
	"context"
	"fmt"
	"io"
	"log"
	"net/http"
	"os"
	"path"
	"runtime"
	"sort"
	"strings"
	"sync"
	"time"

	"github.com/youzan/ZanRedisDB/common"
	"github.com/youzan/ZanRedisDB/engine"
	"github.com/youzan/ZanRedisDB/node"
	"github.com/youzan/ZanRedisDB/pkg/types"
	"github.com/youzan/ZanRedisDB/raft"
	"github.com/youzan/ZanRedisDB/raft/raftpb"
	"github.com/youzan/ZanRedisDB/rockredis"
	"github.com/youzan/ZanRedisDB/snap"
	"github.com/youzan/ZanRedisDB/stats"
	"github.com/youzan/ZanRedisDB/transport/rafthttp"
	"github.com/youzan/ZanRedisDB/wal"
)

const NS = "default"
const N = 3

// election timeout 8 ticks, randomized part fixed to +4 (raft.VerifSetRandDraw(4)): the lease of a follower
// runs out after 8 ticks without a leader, it campaigns after 12
const ElectionTick = 8

// ---- transport owned by the explorer -----------------------------------------------------------

type fakeTransport struct {
	c    *Cluster
	from int
}

func (t *fakeTransport) Start() error          { return nil }
func (t *fakeTransport) IsStarted() bool       { return true }
func (t *fakeTransport) Handler() http.Handler { return nil }
func (t *fakeTransport) SendSnapshot(m snap.Message) {
	m.CloseWithError(fmt.Errorf("no snapshot transfer in this harness"))
}
func (t *fakeTransport) AddRemote(id types.ID, urls []string)  {}
func (t *fakeTransport) AddPeer(id types.ID, urls []string)    {}
func (t *fakeTransport) RemovePeer(id types.ID)                {}
func (t *fakeTransport) RemoveAllPeers()                       {}
func (t *fakeTransport) UpdatePeer(id types.ID, urls []string) {}
func (t *fakeTransport) ActiveSince(id types.ID) time.Time     { return time.Unix(1, 0) }
func (t *fakeTransport) Stop()                                 {}
func (t *fakeTransport) Send(ms []raftpb.Message) {
	t.c.mu.Lock()
	defer t.c.mu.Unlock()
	for _, m := range ms {
		if m.To == 0 {
			continue
		}
		t.c.net = append(t.c.net, m)
		t.c.sent++
	}
}

// ---- cluster --------------------------------------------------------------------------------------

type replica struct {
	id    int
	dir   string
	mgr   *node.NamespaceMgr
	nn    *node.NamespaceNode
	alive bool
}

type Cluster struct {
	mu           sync.Mutex
	root         string
	reps         [N]*replica
	net          []raftpb.Message
	sent         int
	clients      []*client
	ops          []*OpRec
	clock        int64 // logical time for the history
	autoTimeouts int
	Trace        []string
	Verbose      bool
	infraErr     string
	engine       string // mem | pebble
}

type client struct {
	id      int
	prog    []Op
	next    int
	running *OpRec
}

type Op struct {
	Cmd  []string
	Node int // replica the call is sent to (1..3); 0 = whoever is leader when it starts
}

type OpRec struct {
	Client   int
	Cmd      []string
	Node     int
	Call     int64
	Return   int64 // 0 = still open
	Reply    string
	Err      string
	done     chan struct{}
	begun    chan struct{}
	finished bool
}

func silence() {
	engine.SetLogger(0, nil)
	node.SetLogger(0, nil)
	rockredis.SetLogger(0, nil)
	raft.SetLogger(&raft.DefaultLogger{Logger: log.New(io.Discard, "", 0)})
	wal.VerifSilence()
}

func nsConf() *node.NamespaceConfig {
	c := node.NewNSConfig()
	c.Name = NS + "-0"
	c.BaseName = NS
	c.EngType = rockredis.EngType
	c.PartitionNum = 1
	c.Replicator = N
	c.SnapCount = 100000
	c.SnapCatchup = 50000
	c.ExpirationPolicy = common.WaitCompactExpirationPolicy
	c.DataVersion = common.ValueHeaderV1Str
	c.RaftGroupConf.GroupID = 1000
	for i := 1; i <= N; i++ {
		c.RaftGroupConf.SeedNodes = append(c.RaftGroupConf.SeedNodes, node.ReplicaInfo{NodeID: uint64(i), ReplicaID: uint64(i), RaftAddr: fmt.Sprintf("http://127.0.0.1:%d", 100+i)})
	}
	return c
}

func (c *Cluster) startReplica(i int) error {
	r := c.reps[i-1]
	ts := &stats.TransportStats{}
	ts.Initialize()
	tr := &rafthttp.Transport{DialTimeout: time.Second, ClusterID: "verif", TrStats: ts, PeersStats: stats.NewPeersStats()}
	mconf := &node.MachineConfig{NodeID: uint64(i), BroadcastAddr: "127.0.0.1", LocalRaftAddr: fmt.Sprintf("http://127.0.0.1:%d", 100+i), DataRootDir: r.dir,
		TickMs: 100, ElectionTick: ElectionTick, KeepBackup: 2, KeepWAL: 2}
	mconf.RocksDBOpts.EngineType = c.engine
	r.mgr = node.NewNamespaceMgr(tr, mconf)
	nn, err := r.mgr.InitNamespaceNode(nsConf(), uint64(i), false)
	if err != nil {
		return err
	}
	node.VerifSetTransport(nn.Node, &fakeTransport{c: c, from: i})
	if err := nn.Start(false); err != nil {
		return err
	}
	r.nn = nn
	r.alive = true
	return nil
}

// New starts the three replicas and elects replica 1 (scripted, not explored).
func New(progs [][]Op) (*Cluster, error) { return NewWith(progs, "mem") }

// NewWith: engine "pebble" keeps the data of a stopped replica on disk, so a restart meets what the
// replica had applied before (the mem engine always restarts empty).
func NewWith(progs [][]Op, eng string) (*Cluster, error) {
	silence()
	engine.VerifSetMemType(0)
	wal.SegmentSizeBytes = 16 * 1024
	root, err := os.MkdirTemp("/dev/shm", "zrverif-c04-")
	if err != nil {
		return nil, err
	}
	c := &Cluster{root: root, engine: eng}
	for i := 1; i <= N; i++ {
		c.reps[i-1] = &replica{id: i, dir: path.Join(root, fmt.Sprintf("n%d", i))}
		os.MkdirAll(c.reps[i-1].dir, 0o755)
		if err := c.startReplica(i); err != nil {
			return nil, err
		}
	}
	for i, p := range progs {
		c.clients = append(c.clients, &client{id: i, prog: p})
	}
	if !c.settle() {
		return c, fmt.Errorf("cluster does not settle after start")
	}
	// elect replica 1: tick it until it campaigns, deliver everything
	for k := 0; k < 60 && c.Leader() != 1; k++ {
		c.reps[0].nn.Node.Tick()
		c.settle()
		c.deliverAll()
	}
	if c.Leader() != 1 {
		return c, fmt.Errorf("replica 1 was not elected")
	}
	// one heartbeat round so that every replica knows the commit index
	for k := 0; k < 2; k++ {
		c.reps[0].nn.Node.Tick()
		c.settle()
		c.deliverAll()
	}
	for _, r := range c.reps {
		if !r.nn.Node.IsWriteReady() {
			return c, fmt.Errorf("replica %d is not write ready after the scripted start", r.id)
		}
	}
	return c, nil
}

func (c *Cluster) Close() {
	for _, r := range c.reps {
		if r != nil && r.alive {
			r.nn.Close()
			r.alive = false
		}
	}
	os.RemoveAll(c.root)
}

func (c *Cluster) deliverAll() {
	for k := 0; k < 500; k++ {
		c.mu.Lock()
		if len(c.net) == 0 {
			c.mu.Unlock()
			return
		}
		m := c.net[0]
		c.net = c.net[1:]
		c.mu.Unlock()
		c.deliver(m)
		c.settle()
	}
}

func (c *Cluster) deliver(m raftpb.Message) {
	to := int(m.To)
	if to < 1 || to > N || !c.reps[to-1].alive {
		return
	}
	c.reps[to-1].nn.Node.Process(context.Background(), m)
}

// Leader: the replica that considers itself leader with the highest term (0 = none).
func (c *Cluster) Leader() int {
	best, bestTerm := 0, uint64(0)
	for _, r := range c.reps {
		if !r.alive {
			continue
		}
		v := node.VerifRaftView(r.nn.Node)
		if v.State == raft.StateLeader && v.Term > bestTerm {
			best, bestTerm = r.id, v.Term
		}
	}
	return best
}

// ---- quiescence -------------------------------------------------------------------------------------

var stackBuf = make([]byte, 4<<20)

// idle: every raft loop sits in the select of serveChannels, every apply loop in the select of
// applyCommits, no snapshot goroutine, every client call finished or parked in its waiter.
func (c *Cluster) idleNow() bool {
	for _, r := range c.reps {
		if r.alive {
			a, b := node.VerifQueues(r.nn.Node)
			if a > 0 || b > 0 {
				return false
			}
		}
	}
	n := runtime.Stack(stackBuf, true)
	for _, g := range bytes.Split(stackBuf[:n], []byte("\n\n")) {
		body := g
		if i := bytes.Index(g, []byte("\ncreated by")); i >= 0 {
			body = g[:i]
		}
		hdrEnd := bytes.IndexByte(g, '\n')
		if hdrEnd < 0 {
			continue
		}
		hdr := string(g[:hdrEnd])
		rest := body[hdrEnd+1:]
		top := rest
		if i := bytes.IndexByte(rest, '\n'); i >= 0 {
			top = rest[:i]
		}
		switch {
		case bytes.Contains(body, []byte("(*raftNode).serveChannels(")):
			if !strings.Contains(hdr, "[select") || !bytes.Contains(top, []byte("(*raftNode).serveChannels(")) && !bytes.Contains(top, []byte("runtime.selectgo")) {
				return false
			}
			// blocked inside something serveChannels called (not its own select)?
			if bytes.Contains(body, []byte("processReady")) || bytes.Contains(body, []byte("StepNode")) {
				return false
			}
		case bytes.Contains(body, []byte("(*KVNode).applyCommits(")):
			if !strings.Contains(hdr, "[select") || bytes.Contains(body, []byte("applyAll")) || bytes.Contains(body, []byte("maybeTriggerSnapshot")) {
				return false
			}
		case bytes.Contains(body, []byte("beginSnapshot")):
			return false
		case bytes.Contains(body, []byte("zmc/clustermc.")) && !bytes.Contains(body, []byte("(*Cluster).idleNow")):
			// a client call: parked on its waiter (select / chan receive) or not there at all
			if !strings.Contains(hdr, "[select") && !strings.Contains(hdr, "[chan receive") {
				return false
			}
		}
	}
	return true
}

// settle waits for quiescence: two consecutive idle observations.
func (c *Cluster) settle() bool {
	okCount := 0
	for i := 0; i < 20000; i++ {
		if c.idleNow() {
			okCount++
			if okCount >= 2 {
				c.collect()
				return true
			}
		} else {
			okCount = 0
		}
		if i > 50 {
			time.Sleep(50 * time.Microsecond)
		} else {
			runtime.Gosched()
		}
	}
	c.infraErr = "no quiescence after 20000 polls"
	return false
}

// collect: record the returns of the client calls that finished.
func (c *Cluster) collect() {
	for _, cl := range c.clients {
		if cl.running != nil {
			select {
			case <-cl.running.done:
				c.clock++
				cl.running.Return = c.clock
				cl.running.finished = true
				cl.running = nil
			default:
			}
		}
	}
}

// ---- client calls -----------------------------------------------------------------------------------

func replyString(v interface{}) string {
	switch x := v.(type) {
	case nil:
		return "nil"
	case []byte:
		return fmt.Sprintf("%q", string(x))
	case int64:
		return fmt.Sprintf("%d", x)
	case int:
		return fmt.Sprintf("%d", x)
	case string:
		return x
	case error:
		return "ERR " + x.Error()
	}
	return fmt.Sprintf("%v", v)
}

func (c *Cluster) runOp(rec *OpRec, nd *node.KVNode) {
	defer close(rec.done)
	close(rec.begun)
	defer func() {
		if e := recover(); e != nil {
			rec.Err = fmt.Sprintf("panic: %v", e)
		}
	}()
	args := make([][]byte, len(rec.Cmd))
	for i, a := range rec.Cmd {
		args[i] = []byte(a)
	}
	h, ok := nd.GetWriteHandler(strings.ToLower(rec.Cmd[0]))
	if !ok {
		rec.Err = "no handler"
		return
	}
	v, err := h(common.BuildCommand(args))
	if err != nil {
		rec.Err = err.Error()
		return
	}
	if f, ok := v.(*node.FutureRsp); ok {
		v, err = f.WaitRsp()
		if err != nil {
			rec.Err = err.Error()
			return
		}
	}
	if e, ok := v.(error); ok {
		rec.Err = e.Error()
		return
	}
	rec.Reply = replyString(v)
}

// ---- events -------------------------------------------------------------------------------------------

type Event struct {
	Kind string // start deliver drop dup tick stop restart transfer
	A, B int    // start: client; deliver/drop/dup: link from A to B (its oldest message); tick/stop/restart: replica; transfer: A -> B
}

func (e Event) String() string {
	switch e.Kind {
	case "start":
		return fmt.Sprintf("start(client %d)", e.A)
	case "deliver", "drop", "dup":
		return fmt.Sprintf("%s(%d->%d)", e.Kind, e.A, e.B)
	case "transfer":
		return fmt.Sprintf("transfer(%d->%d)", e.A, e.B)
	case "timeout":
		if e.B == 1 {
			return fmt.Sprintf("timeout(%d, no leader)", e.A)
		}
	}
	return fmt.Sprintf("%s(%d)", e.Kind, e.A)
}

func (c *Cluster) firstOnLink(a, b int) int {
	for i, m := range c.net {
		if int(m.From) == a && int(m.To) == b {
			return i
		}
	}
	return -1
}

func (c *Cluster) describeMsg(m raftpb.Message) string {
	return fmt.Sprintf("%v t%d idx%d n%d c%d rej=%v", m.Type, m.Term, m.Index, len(m.Entries), m.Commit, m.Reject)
}

// Apply executes one event and runs to quiescence.
func (c *Cluster) Apply(e Event) bool {
	switch e.Kind {
	case "start":
		cl := c.clients[e.A]
		op := cl.prog[cl.next]
		cl.next++
		target := op.Node
		if target == 0 {
			target = c.Leader()
			if target == 0 {
				target = 1
			}
		}
		c.clock++
		rec := &OpRec{Client: cl.id, Cmd: op.Cmd, Node: target, Call: c.clock, done: make(chan struct{}), begun: make(chan struct{})}
		c.ops = append(c.ops, rec)
		cl.running = rec
		if !c.reps[target-1].alive {
			rec.Err = "connection refused"
			close(rec.done)
		} else {
			go c.runOp(rec, c.reps[target-1].nn.Node)
			<-rec.begun // the call is running before quiescence is looked for
		}
		if c.Verbose {
			c.Trace = append(c.Trace, fmt.Sprintf("%s %v -> replica %d", e, op.Cmd, target))
		}
	case "deliver", "drop", "dup":
		c.mu.Lock()
		i := c.firstOnLink(e.A, e.B)
		if i < 0 {
			c.mu.Unlock()
			c.infraErr = fmt.Sprintf("event %s: no such message", e)
			return false
		}
		m := c.net[i]
		if e.Kind != "dup" {
			c.net = append(c.net[:i:i], c.net[i+1:]...)
		}
		c.mu.Unlock()
		if c.Verbose {
			c.Trace = append(c.Trace, fmt.Sprintf("%s %s", e, c.describeMsg(m)))
		}
		if e.Kind != "drop" {
			c.deliver(m)
		}
	case "tick":
		c.reps[e.A-1].nn.Node.Tick()
		if c.Verbose {
			c.Trace = append(c.Trace, e.String())
		}
	case "stop", "kill":
		r := c.reps[e.A-1]
		r.nn.Close()
		r.alive = false
		// what was in flight to it is lost with its connections; kill: also what it had handed to
		// its transport and was not on the wire yet
		c.mu.Lock()
		var keep []raftpb.Message
		for _, m := range c.net {
			if int(m.To) != e.A && !(e.Kind == "kill" && int(m.From) == e.A) {
				keep = append(keep, m)
			}
		}
		c.net = keep
		c.mu.Unlock()
		if c.Verbose {
			c.Trace = append(c.Trace, e.String())
		}
	case "restart":
		if err := c.startReplica(e.A); err != nil {
			c.infraErr = fmt.Sprintf("restart of replica %d: %v", e.A, err)
			return false
		}
		if c.Verbose {
			c.Trace = append(c.Trace, e.String())
		}
	case "timeout":
		// the election timer of the replica expires: clock ticks until it starts campaigning
		if e.B == 1 {
			c.autoTimeouts++
		}
		nd := c.reps[e.A-1].nn.Node
		before := node.VerifRaftView(nd)
		// time passes for the other followers too: their leader lease runs out (they do not campaign yet)
		ld := c.Leader()
		for _, r := range c.reps {
			if r.alive && r.id != e.A && r.id != ld {
				for k := 0; k < ElectionTick; k++ {
					r.nn.Node.Tick()
					if !c.settle() {
						return false
					}
				}
			}
		}
		for k := 0; k < 2*ElectionTick; k++ {
			nd.Tick()
			if !c.settle() {
				return false
			}
			v := node.VerifRaftView(nd)
			if v.State != before.State || v.Term != before.Term {
				break
			}
			c.mu.Lock()
			grew := false
			for _, m := range c.net {
				if int(m.From) == e.A && (m.Type == raftpb.MsgPreVote || m.Type == raftpb.MsgVote) {
					grew = true
				}
			}
			c.mu.Unlock()
			if grew {
				break
			}
		}
		if c.Verbose {
			c.Trace = append(c.Trace, e.String())
		}
	case "transfer":
		c.reps[e.A-1].nn.Node.TransferLeadership(uint64(e.B))
		if c.Verbose {
			c.Trace = append(c.Trace, e.String())
		}
	}
	return c.settle()
}

type Budget struct{ Drop, Dup, Stop, Transfer, Tick, Timeout int }

// Enabled: the events possible now, the default first.
// Default policy: start every client call that can start; else deliver the oldest message; else nothing (end).
func (c *Cluster) Enabled(used, max Budget) []Event {
	var evs []Event
	for _, cl := range c.clients {
		if cl.running == nil && cl.next < len(cl.prog) {
			evs = append(evs, Event{Kind: "start", A: cl.id})
		}
	}
	c.mu.Lock()
	seen := map[[2]int]bool{}
	var links [][2]int
	for _, m := range c.net {
		l := [2]int{int(m.From), int(m.To)}
		if !seen[l] {
			seen[l] = true
			links = append(links, l) // FIFO per link, any order across links
		}
	}
	c.mu.Unlock()
	if len(links) == 0 && len(evs) == 0 && c.Leader() == 0 && c.workLeft() && c.autoTimeouts < 3 {
		// nothing in flight, no leader, calls still open or to come: the natural next thing is that the
		// election timer of a live replica expires (default event, lowest id first)
		for _, r := range c.reps {
			if r.alive {
				evs = append(evs, Event{Kind: "timeout", A: r.id, B: 1})
				break
			}
		}
	}
	// canonical order of the links: raft broadcasts by iterating over a map, so the order in which
	// messages to different replicas were handed to the transport is not a property of the state
	sort.Slice(links, func(i, j int) bool {
		if links[i][0] != links[j][0] {
			return links[i][0] < links[j][0]
		}
		return links[i][1] < links[j][1]
	})
	for _, l := range links {
		evs = append(evs, Event{Kind: "deliver", A: l[0], B: l[1]})
	}
	if used.Drop < max.Drop {
		for _, l := range links {
			evs = append(evs, Event{Kind: "drop", A: l[0], B: l[1]})
		}
	}
	if used.Dup < max.Dup {
		for _, l := range links {
			evs = append(evs, Event{Kind: "dup", A: l[0], B: l[1]})
		}
	}
	for _, r := range c.reps {
		if r.alive && used.Stop < max.Stop && c.aliveCount() == N {
			evs = append(evs, Event{Kind: "stop", A: r.id}, Event{Kind: "kill", A: r.id})
		}
		if !r.alive {
			evs = append(evs, Event{Kind: "restart", A: r.id})
		}
	}
	if used.Tick < max.Tick {
		for _, r := range c.reps {
			if r.alive {
				evs = append(evs, Event{Kind: "tick", A: r.id})
			}
		}
	}
	if used.Timeout < max.Timeout {
		l := c.Leader()
		for _, r := range c.reps {
			if r.alive && r.id != l && !(len(evs) > 0 && evs[0].Kind == "timeout" && evs[0].A == r.id) {
				evs = append(evs, Event{Kind: "timeout", A: r.id})
			}
		}
	}
	if used.Transfer < max.Transfer {
		if l := c.Leader(); l != 0 {
			for _, r := range c.reps {
				if r.alive && r.id != l {
					evs = append(evs, Event{Kind: "transfer", A: l, B: r.id})
				}
			}
		}
	}
	return evs
}

func (c *Cluster) workLeft() bool {
	for _, cl := range c.clients {
		if cl.running != nil || cl.next < len(cl.prog) {
			return true
		}
	}
	return false
}

func (c *Cluster) aliveCount() int {
	n := 0
	for _, r := range c.reps {
		if r.alive {
			n++
		}
	}
	return n
}

// Heal: restart what is down, then ticks and deliveries until one leader has everything applied
// everywhere; returns false if the cluster does not get there within the horizon.
func (c *Cluster) Heal() bool {
	for _, r := range c.reps {
		if !r.alive {
			if err := c.startReplica(r.id); err != nil {
				c.infraErr = fmt.Sprintf("heal: restart of replica %d: %v", r.id, err)
				return false
			}
			c.settle()
		}
	}
	for round := 0; round < 120; round++ {
		c.deliverAll()
		l := c.Leader()
		if l != 0 {
			lv := node.VerifRaftView(c.reps[l-1].nn.Node)
			same := true
			for _, r := range c.reps {
				v := node.VerifRaftView(r.nn.Node)
				if v.Term != lv.Term || v.Committed != lv.LastIndex || r.nn.Node.GetAppliedIndex() != lv.LastIndex {
					same = false
				}
			}
			if same && lv.Committed == lv.LastIndex {
				return true
			}
			c.reps[l-1].nn.Node.Tick() // heartbeat: commit index and retransmission
		} else {
			// no leader: let the replicas' election timers run, lowest id first
			c.reps[round%N].nn.Node.Tick()
		}
		c.settle()
	}
	return false
}

// FinalReads: what every replica's state machine holds for the keys, read locally.
func (c *Cluster) FinalReads(keys [][]string) []string {
	var out []string
	for _, r := range c.reps {
		var sb strings.Builder
		for _, k := range keys {
			h, ok := r.nn.Node.GetHandler(k[0])
			if !ok {
				sb.WriteString("?")
				continue
			}
			conn := &capConn{}
			args := make([][]byte, len(k))
			for i, a := range k {
				args[i] = []byte(a)
			}
			h(conn, common.BuildCommand(args))
			fmt.Fprintf(&sb, "%s=%s; ", strings.Join(k, " "), conn.String())
		}
		out = append(out, sb.String())
	}
	return out
}

func (c *Cluster) History() []*OpRec { return c.ops }

func (c *Cluster) InfraErr() string { return c.infraErr }

func sortedCopy(a []string) []string {
	b := append([]string(nil), a...)
	sort.Strings(b)
	return b
}
