package main

import (
	"fmt"
	"os"
	"runtime/pprof"
	"time"
	"zmc/servermc"
)

func main() {
	servermc.Silence()
	n, err := servermc.Start(23500, 2, "")
	if err != nil { panic(err) }
	c, _ := servermc.Dial(23500)
	go func() {
		time.Sleep(2 * time.Second)
		pprof.Lookup("goroutine").WriteTo(os.Stdout, 1)
	}()
	r, err := c.Do(os.Args[1:]...)
	fmt.Println(r, err)
	r, err = c.Do("set", "default:t:j", "x")
	fmt.Println(r, err)
	n.Stop()
}
