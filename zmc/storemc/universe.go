package storemc

import (
	"fmt"
	"sort"
	"strconv"
	"strings"

	"zmc/ev"
)

// Logical is the user-visible content of the universe keys, read through the real read handlers.
type Logical struct {
	KV   map[string]string
	Hash map[string]map[string]string
	List map[string][]string
	Set  map[string]map[string]bool
	ZSet map[string]map[string]float64
}

func NewLogical() Logical {
	return Logical{KV: map[string]string{}, Hash: map[string]map[string]string{}, List: map[string][]string{}, Set: map[string]map[string]bool{}, ZSet: map[string]map[string]float64{}}
}

func (l Logical) Clone() Logical {
	n := NewLogical()
	for k, v := range l.KV {
		n.KV[k] = v
	}
	for k, m := range l.Hash {
		c := map[string]string{}
		for f, v := range m {
			c[f] = v
		}
		n.Hash[k] = c
	}
	for k, v := range l.List {
		n.List[k] = append([]string(nil), v...)
	}
	for k, m := range l.Set {
		c := map[string]bool{}
		for f := range m {
			c[f] = true
		}
		n.Set[k] = c
	}
	for k, m := range l.ZSet {
		c := map[string]float64{}
		for f, v := range m {
			c[f] = v
		}
		n.ZSet[k] = c
	}
	return n
}

func sortedKeys[V any](m map[string]V) []string {
	ks := make([]string, 0, len(m))
	for k := range m {
		ks = append(ks, k)
	}
	sort.Strings(ks)
	return ks
}

func (l Logical) String() string {
	var sb strings.Builder
	for _, k := range sortedKeys(l.KV) {
		fmt.Fprintf(&sb, "kv %s=%q; ", k, l.KV[k])
	}
	for _, k := range sortedKeys(l.Hash) {
		fmt.Fprintf(&sb, "hash %s={", k)
		for _, f := range sortedKeys(l.Hash[k]) {
			fmt.Fprintf(&sb, "%q:%q ", f, l.Hash[k][f])
		}
		sb.WriteString("}; ")
	}
	for _, k := range sortedKeys(l.List) {
		fmt.Fprintf(&sb, "list %s=%q; ", k, l.List[k])
	}
	for _, k := range sortedKeys(l.Set) {
		fmt.Fprintf(&sb, "set %s=%q; ", k, sortedKeys(l.Set[k]))
	}
	for _, k := range sortedKeys(l.ZSet) {
		fmt.Fprintf(&sb, "zset %s={", k)
		for _, f := range sortedKeys(l.ZSet[k]) {
			fmt.Fprintf(&sb, "%q:%v ", f, l.ZSet[k][f])
		}
		sb.WriteString("}; ")
	}
	return sb.String()
}

// Universe: which keys exist per type and which command instances are transitions.
type Universe struct {
	Name                      string
	KV, Hash, List, Set, ZSet []string
	Fields                    []string // sub-keys / members probed by point lookups
	Cmds                      [][]string
}

// ReadLogical reads the content of every universe key through enumerating reads.
// Errors of enumerating reads are returned as problems (C09 treats them as violations).
func ReadLogical(s *Store, u *Universe) (Logical, []string) {
	l := NewLogical()
	var probs []string
	for _, k := range u.KV {
		r := s.Read("get", k)
		if r.Kind == "bulk" {
			l.KV[k] = r.S
		} else if r.Kind != "null" {
			probs = append(probs, fmt.Sprintf("GET %s -> %v", k, r))
		}
	}
	for _, k := range u.Hash {
		r := s.Read("hgetall", k)
		if r.Kind != "arr" || len(r.A)%2 != 0 {
			probs = append(probs, fmt.Sprintf("HGETALL %s -> %v", k, r))
			continue
		}
		if len(r.A) > 0 {
			m := map[string]string{}
			for i := 0; i < len(r.A); i += 2 {
				if _, dup := m[r.A[i].S]; dup {
					probs = append(probs, fmt.Sprintf("HGETALL %s lists field %q twice", k, r.A[i].S))
				}
				m[r.A[i].S] = r.A[i+1].S
			}
			l.Hash[k] = m
		}
	}
	for _, k := range u.List {
		r := s.Read("lrange", k, "0", "-1")
		if r.Kind != "arr" {
			probs = append(probs, fmt.Sprintf("LRANGE %s 0 -1 -> %v", k, r))
			continue
		}
		if len(r.A) > 0 {
			var v []string
			for _, x := range r.A {
				v = append(v, x.S)
			}
			l.List[k] = v
		}
	}
	for _, k := range u.Set {
		r := s.Read("smembers", k)
		if r.Kind != "arr" {
			probs = append(probs, fmt.Sprintf("SMEMBERS %s -> %v", k, r))
			continue
		}
		if len(r.A) > 0 {
			m := map[string]bool{}
			for _, x := range r.A {
				if m[x.S] {
					probs = append(probs, fmt.Sprintf("SMEMBERS %s lists %q twice", k, x.S))
				}
				m[x.S] = true
			}
			l.Set[k] = m
		}
	}
	for _, k := range u.ZSet {
		r := s.Read("zrange", k, "0", "-1", "withscores")
		if r.Kind != "arr" || len(r.A)%2 != 0 {
			probs = append(probs, fmt.Sprintf("ZRANGE %s 0 -1 WITHSCORES -> %v", k, r))
			continue
		}
		if len(r.A) > 0 {
			m := map[string]float64{}
			for i := 0; i < len(r.A); i += 2 {
				f, err := strconv.ParseFloat(r.A[i+1].S, 64)
				if err != nil {
					probs = append(probs, fmt.Sprintf("ZRANGE %s score %q", k, r.A[i+1].S))
				}
				if _, dup := m[r.A[i].S]; dup {
					probs = append(probs, fmt.Sprintf("ZRANGE %s lists %q twice", k, r.A[i].S))
				}
				m[r.A[i].S] = f
			}
			l.ZSet[k] = m
		}
	}
	return l, probs
}

func arrLen(r Reply) int {
	if r.Kind != "arr" {
		return -1
	}
	return len(r.A)
}

// Invariants is the C09 oracle: counts agree with enumerations, every enumeration agrees,
// existence ⇔ ≥1 element, every enumerated element is reachable by point lookups.
// It needs no model. Returns (signature-suffix, description) pairs.
func Invariants(s *Store, u *Universe, l Logical) [][2]string {
	var bad [][2]string
	add := func(sig, f string, a ...interface{}) { bad = append(bad, [2]string{sig, fmt.Sprintf(f, a...)}) }
	for _, k := range u.Hash {
		n := len(l.Hash[k])
		if r := s.Read("hlen", k); r.Kind != "int" || int(r.I) != n {
			add("HLEN!=|HGETALL|", "HLEN %s = %v but HGETALL has %d field(s) %v", k, r, n, sortedKeys(l.Hash[k]))
		}
		if r := s.Read("hkeys", k); arrLen(r) != n {
			add("|HKEYS|!=|HGETALL|", "HKEYS %s = %v but HGETALL has %d", k, r, n)
		}
		if r := s.Read("hvals", k); arrLen(r) != n {
			add("|HVALS|!=|HGETALL|", "HVALS %s = %v but HGETALL has %d", k, r, n)
		}
		if r := s.Read("hkeyexist", k); r.Kind != "int" || (r.I == 1) != (n > 0) {
			add("HKEYEXIST", "HKEYEXIST %s = %v with %d field(s)", k, r, n)
		}
		for f, v := range l.Hash[k] {
			if r := s.Read("hget", k, f); r.Kind != "bulk" || r.S != v {
				add("HGET-unreachable", "HGET %s %q = %v but HGETALL shows %q", k, f, r, v)
			}
			if r := s.Read("hexists", k, f); r.Kind != "int" || r.I != 1 {
				add("HEXISTS-unreachable", "HEXISTS %s %q = %v but HGETALL lists it", k, f, r)
			}
		}
		for _, f := range u.Fields {
			if _, ok := l.Hash[k][f]; !ok {
				if r := s.Read("hget", k, f); r.Kind != "null" {
					add("HGET-ghost", "HGET %s %q = %v but HGETALL does not list it", k, f, r)
				}
			}
		}
	}
	for _, k := range u.Set {
		n := len(l.Set[k])
		if r := s.Read("scard", k); r.Kind != "int" || int(r.I) != n {
			add("SCARD!=|SMEMBERS|", "SCARD %s = %v but SMEMBERS has %d member(s) %q", k, r, n, sortedKeys(l.Set[k]))
		}
		if r := s.Read("skeyexist", k); r.Kind != "int" || (r.I == 1) != (n > 0) {
			add("SKEYEXIST", "SKEYEXIST %s = %v with %d member(s)", k, r, n)
		}
		for _, f := range u.Fields {
			r := s.Read("sismember", k, f)
			if r.Kind != "int" || (r.I == 1) != l.Set[k][f] {
				add("SISMEMBER", "SISMEMBER %s %q = %v but SMEMBERS says %v", k, f, r, l.Set[k][f])
			}
		}
	}
	for _, k := range u.List {
		n := len(l.List[k])
		if r := s.Read("llen", k); r.Kind != "int" || int(r.I) != n {
			add("LLEN!=|LRANGE|", "LLEN %s = %v but LRANGE 0 -1 has %d element(s) %q", k, r, n, l.List[k])
		}
		if r := s.Read("lkeyexist", k); r.Kind != "int" || (r.I == 1) != (n > 0) {
			add("LKEYEXIST", "LKEYEXIST %s = %v with %d element(s)", k, r, n)
		}
		for i, v := range l.List[k] {
			if r := s.Read("lindex", k, strconv.Itoa(i)); r.Kind != "bulk" || r.S != v {
				add("LINDEX-unreachable", "LINDEX %s %d = %v but LRANGE shows %q", k, i, r, v)
			}
			if r := s.Read("lindex", k, strconv.Itoa(i-n)); r.Kind != "bulk" || r.S != v {
				add("LINDEX-negative", "LINDEX %s %d = %v but LRANGE shows %q", k, i-n, r, v)
			}
		}
		if r := s.Read("lindex", k, strconv.Itoa(n)); r.Kind != "null" {
			add("LINDEX-ghost", "LINDEX %s %d = %v beyond the %d element(s) of LRANGE", k, n, r, n)
		}
	}
	for _, k := range u.ZSet {
		n := len(l.ZSet[k])
		if r := s.Read("zcard", k); r.Kind != "int" || int(r.I) != n {
			add("ZCARD!=|ZRANGE|", "ZCARD %s = %v but ZRANGE 0 -1 has %d member(s) %v", k, r, n, l.ZSet[k])
		}
		if r := s.Read("zrangebyscore", k, "-inf", "+inf"); arrLen(r) != n {
			add("|ZRANGEBYSCORE|!=|ZRANGE|", "ZRANGEBYSCORE %s -inf +inf = %v but ZRANGE has %d", k, r, n)
		}
		if r := s.Read("zrangebylex", k, "-", "+"); arrLen(r) != n {
			add("|ZRANGEBYLEX|!=|ZRANGE|", "ZRANGEBYLEX %s - + = %v but ZRANGE has %d", k, r, n)
		}
		if r := s.Read("zrevrange", k, "0", "-1"); arrLen(r) != n {
			add("|ZREVRANGE|!=|ZRANGE|", "ZREVRANGE %s 0 -1 = %v but ZRANGE has %d", k, r, n)
		}
		if r := s.Read("zcount", k, "-inf", "+inf"); r.Kind != "int" || int(r.I) != n {
			add("ZCOUNT!=|ZRANGE|", "ZCOUNT %s -inf +inf = %v but ZRANGE has %d", k, r, n)
		}
		if r := s.Read("zkeyexist", k); r.Kind != "int" || (r.I == 1) != (n > 0) {
			add("ZKEYEXIST", "ZKEYEXIST %s = %v with %d member(s)", k, r, n)
		}
		for m, sc := range l.ZSet[k] {
			r := s.Read("zscore", k, m)
			f, err := strconv.ParseFloat(r.S, 64)
			if r.Kind != "bulk" || err != nil || f != sc {
				add("ZSCORE-unreachable", "ZSCORE %s %q = %v but ZRANGE shows %v", k, m, r, sc)
			}
		}
		for _, m := range u.Fields {
			if _, ok := l.ZSet[k][m]; !ok {
				if r := s.Read("zscore", k, m); r.Kind != "null" {
					add("ZSCORE-ghost", "ZSCORE %s %q = %v but ZRANGE does not list it", k, m, r)
				}
			}
		}
	}
	return bad
}

// ---- BFS over physical states -------------------------------------------------------

type Step struct {
	Cmd   []string
	Reply string
}

type BFSResult struct {
	States, Transitions int
	Depth               int
	Fixpoint            bool
	DeadlineHit         bool
	Levels              []int
}

// Oracle is evaluated after every transition. before/after are logical states read from the
// real store; it returns violations as (property, signature, description).
type Oracle func(s *Store, u *Universe, before Logical, cmd []string, reply Reply, after Logical, afterProbs []string) [][3]string

type BFSOptions struct {
	MaxDepth      int
	T0            int64 // log timestamp of depth-1 commands (ns); depth d uses T0+(d-1)*StepNs
	StepNs        int64
	SkipKey       func(k string) bool // physical keys not part of the state identity
	Deadline      ev.Deadline
	MaxStates     int
	InBatchPrefix []string // C09: apply each command in one batch after this batchable command
}

type stateRec struct {
	dump Dump
	path []Step
}

// BFS explores physical store states of one universe on one store (engine+policy).
func BFS(s *Store, u *Universe, opt BFSOptions, oracles []Oracle, col *ev.Collector, label string) BFSResult {
	var res BFSResult
	s.Load(Dump{})
	seen := map[string]bool{Dump{}.Key(opt.SkipKey): true}
	frontier := []stateRec{{dump: Dump{}}}
	res.States = 1
	for depth := 1; depth <= opt.MaxDepth && len(frontier) > 0; depth++ {
		ts := opt.T0 + int64(depth-1)*opt.StepNs
		var next []stateRec
		for _, st := range frontier {
			if opt.Deadline.Hit() {
				res.DeadlineHit = true
				return res
			}
			s.Load(st.dump)
			before, _ := ReadLogical(s, u)
			for _, cmd := range u.Cmds {
				s.Load(st.dump)
				var reply Reply
				if opt.InBatchPrefix != nil {
					rs := s.ApplyEntries([]Entry{{Ts: ts, Cmds: [][]string{opt.InBatchPrefix}}, {Ts: ts, Cmds: [][]string{cmd}}}, false)
					reply = rs[1][0]
				} else {
					reply = s.Write(ts, cmd...)
				}
				res.Transitions++
				after, probs := ReadLogical(s, u)
				violated := false
				for _, o := range oracles {
					for _, b := range o(s, u, before, cmd, reply, after, probs) {
						violated = true
						path := append(append([]Step(nil), st.path...), Step{cmd, reply.String()})
						col.Add(ev.Violation{Property: b[0], Signature: b[1],
							What:   fmt.Sprintf("%s: after %v (reply %v) from state {%s}: %s", label, cmd, reply, before, b[2]),
							Replay: map[string]interface{}{"label": label, "engine": s.Opt.Engine, "policy": int(s.Opt.Policy), "path": path, "t0": opt.T0, "step_ns": opt.StepNs, "in_batch_prefix": opt.InBatchPrefix}})
					}
				}
				if violated {
					continue // violating states are not expanded
				}
				d := s.Dump()
				k := d.Key(opt.SkipKey)
				if !seen[k] {
					seen[k] = true
					res.States++
					if opt.MaxStates > 0 && res.States > opt.MaxStates {
						continue
					}
					next = append(next, stateRec{dump: d, path: append(append([]Step(nil), st.path...), Step{cmd, reply.String()})})
				}
			}
		}
		res.Levels = append(res.Levels, len(next))
		res.Depth = depth
		frontier = next
	}
	res.Fixpoint = len(frontier) == 0
	return res
}

// C09Oracle wraps Invariants.
func C09Oracle(s *Store, u *Universe, before Logical, cmd []string, reply Reply, after Logical, probs []string) [][3]string {
	var out [][3]string
	shape := cmdShape(cmd)
	for _, p := range probs {
		out = append(out, [3]string{"C09", "C09|" + shape + "|enumeration-error", p})
	}
	for _, b := range Invariants(s, u, after) {
		out = append(out, [3]string{"C09", "C09|" + shape + "|" + b[0], b[1]})
	}
	return out
}

// cmdShape: command name + argument shape (count, whether an argument repeats).
func cmdShape(cmd []string) string {
	name := strings.ToLower(cmd[0])
	dup := ""
	seen := map[string]bool{}
	step := 1
	start := 2
	switch name {
	case "hmset":
		step = 2
	case "zadd":
		step, start = 2, 3
	case "del", "mset", "plset":
		start = 1
		if name != "del" {
			step = 2
		}
	}
	for i := start; i < len(cmd); i += step {
		if seen[cmd[i]] {
			dup = "+duplicate-arg"
		}
		seen[cmd[i]] = true
	}
	return fmt.Sprintf("%s/%d%s", name, len(cmd)-1, dup)
}

// Replay prints a recorded violation (the path is fully described in the file).
func Replay(prop, file string) int {
	fmt.Println("see", file, "- re-run the check to re-execute; path, engine, policy and timestamps are recorded")
	return 1
}
