// Package walmc: C05 — the write-ahead log under crashes. Every save history up to a depth
// over a small alphabet runs on the real wal package on tmpfs; an observer in
// fileutil.Fsync/Fdatasync records what was durable when; from every observation point crash
// images are enumerated (process kill, every byte truncation of the unsynced tail, zeroed
// sector subsets, single-bit flips in the synced region) and each image is reopened through
// node/raft.go's openWAL procedure (Open + ReadAll, Repair once on error).
package walmc

import (
	"bytes"
	"fmt"
	"io/ioutil"
	"os"
	"path/filepath"
	"sort"
	"strings"

	"github.com/youzan/ZanRedisDB/pkg/fileutil"
	"github.com/youzan/ZanRedisDB/raft/raftpb"
	"github.com/youzan/ZanRedisDB/wal"
	"github.com/youzan/ZanRedisDB/wal/walpb"
	"zmc/ev"
)

// ---- reference ------------------------------------------------------------------------

type Rec struct {
	Kind  string // entry state snap
	Entry raftpb.Entry
	State raftpb.HardState
	Snap  walpb.Snapshot
}

type Folded struct {
	State raftpb.HardState
	Ents  []raftpb.Entry
}

func fold(recs []Rec) Folded {
	var f Folded
	for _, r := range recs {
		switch r.Kind {
		case "entry":
			up := int(r.Entry.Index) - 1
			if up > len(f.Ents) {
				up = len(f.Ents) // cannot happen: the alphabet never leaves gaps
			}
			f.Ents = append(f.Ents[:up:up], r.Entry)
		case "state":
			f.State = r.State
		}
	}
	return f
}

func (f Folded) key() string {
	var sb strings.Builder
	fmt.Fprintf(&sb, "hs(%d,%d,%d)", f.State.Term, f.State.Vote, f.State.Commit)
	for _, e := range f.Ents {
		fmt.Fprintf(&sb, " e(%d,%d,%d,%x)", e.Index, e.Term, e.Type, e.Data)
	}
	return sb.String()
}

// ---- operations ----------------------------------------------------------------------------

type Op struct {
	Kind string // save overwrite commit snap release sync reopen
	N    int    // entries
	Size int    // payload size
	Bump bool   // term bump in the hard state
}

func (o Op) String() string {
	switch o.Kind {
	case "save":
		return fmt.Sprintf("save(%d x %dB bump=%v)", o.N, o.Size, o.Bump)
	case "overwrite":
		return fmt.Sprintf("overwrite-last(%dB)", o.Size)
	case "overwrite2":
		return fmt.Sprintf("overwrite-from-last-but-one(%dB)", o.Size)
	}
	return o.Kind
}

func Alphabet(full bool) []Op {
	ops := []Op{{Kind: "save", N: 1, Size: 7}, {Kind: "save", N: 2, Size: 500}, {Kind: "save", N: 1, Size: 513, Bump: true}, {Kind: "save", N: 1, Size: 0},
		{Kind: "overwrite", Size: 8}, {Kind: "overwrite2", Size: 7}, {Kind: "commit"}, {Kind: "vote"}, {Kind: "term"}, {Kind: "snap"}, {Kind: "reopen"}}
	if full {
		ops = append(ops, Op{Kind: "save", N: 1, Size: 8}, Op{Kind: "sync"}, Op{Kind: "release"}, Op{Kind: "save", N: 3, Size: 200})
	}
	return ops
}

// ---- observation ------------------------------------------------------------------------------

type Obs struct {
	Label   string
	Files   map[string][]byte // written content of every wal file (page-cache view)
	Synced  map[string]int    // durable length per file
	Durable int               // reference records that must survive (durability obligation met)
	Issued  int               // reference records submitted so far
}

type run struct {
	dir           string
	w             *wal.WAL
	recs          []Rec
	synced        map[string]int
	durable       int
	obs           []Obs
	optFsync      bool
	last          uint64 // last entry index
	term          uint64
	commit        uint64
	cur           string
	lastSavedTerm uint64
	lastSavedVote uint64
	vote          uint64
	tmpSynced     int
}

func readDir(dir string) map[string][]byte {
	out := map[string][]byte{}
	fis, _ := ioutil.ReadDir(dir)
	for _, fi := range fis {
		if strings.HasSuffix(fi.Name(), ".wal") || strings.HasSuffix(fi.Name(), ".tmp") {
			b, _ := ioutil.ReadFile(filepath.Join(dir, fi.Name()))
			out[fi.Name()] = b
		}
	}
	return out
}

func (r *run) observe(label string) {
	files := readDir(r.dir)
	for n := range files {
		if _, ok := r.synced[n]; !ok && strings.HasSuffix(n, ".wal") && r.tmpSynced > 0 {
			// a pre-allocated "<n>.tmp" was renamed to this segment: what was synced stays synced
			r.synced[n] = r.tmpSynced
			r.tmpSynced = 0
		}
	}
	o := Obs{Label: label, Files: files, Synced: map[string]int{}, Durable: r.durable, Issued: len(r.recs)}
	for k, v := range r.synced {
		o.Synced[k] = v
	}
	r.obs = append(r.obs, o)
}

func dataEnd(b []byte) int {
	n := len(b)
	for n > 0 && b[n-1] == 0 {
		n--
	}
	// records are 8-byte framed; round up to the frame
	if n%8 != 0 {
		n += 8 - n%8
	}
	if n > len(b) {
		n = len(b)
	}
	return n
}

func (r *run) hook(f *os.File, dataOnly bool) {
	name := filepath.Base(f.Name())
	if !strings.HasSuffix(name, ".wal") && !strings.HasSuffix(name, ".tmp") {
		return // directory fsync
	}
	// the first segment is created inside "<dir>.tmp" and the directory is renamed afterwards:
	// its *os.File keeps the old path, so files are identified by base name
	if d := filepath.Dir(f.Name()); d != r.dir && d != r.dir+".tmp" {
		return
	}
	b, err := ioutil.ReadFile(filepath.Join(r.dir, name))
	if err != nil {
		b, err = ioutil.ReadFile(f.Name())
		if err != nil {
			return
		}
	}
	r.synced[name] = dataEnd(b)
	if strings.HasSuffix(name, ".tmp") {
		r.tmpSynced = dataEnd(b)
	}
	// everything submitted so far has been flushed and synced (Save encodes all records of
	// a call before its sync; cut() syncs the old tail first)
	r.durable = len(r.recs)
	r.observe(r.cur + "@sync(" + name + ")")
}

func payload(size int, seed byte) []byte {
	b := make([]byte, size)
	for i := range b {
		b[i] = seed + byte(i%251) + 1
	}
	return b
}

// Execute runs a history and returns the observation points.
func Execute(dir string, hist []Op, optFsync bool) (obs []Obs, recs []Rec, err error) {
	os.RemoveAll(dir)
	os.MkdirAll(filepath.Dir(dir), 0o755)
	r := &run{dir: dir, synced: map[string]int{}, optFsync: optFsync, term: 1, vote: 1}
	fileutil.VerifSyncHook = r.hook
	defer func() { fileutil.VerifSyncHook = nil }()
	r.cur = "create"
	w, err := wal.Create(dir, []byte("meta"), optFsync)
	if err != nil {
		return nil, nil, err
	}
	r.w = w
	closed := false
	defer func() {
		// never leave a WAL (and its segment pre-allocation goroutine) behind: the next
		// history reuses the directory path
		if !closed && r.w != nil {
			func() {
				defer func() { recover() }()
				r.w.Close()
			}()
		}
	}()
	// files created inside the .tmp directory were renamed: re-key the synced map
	r.synced = map[string]int{}
	for n, b := range readDir(dir) {
		r.synced[n] = dataEnd(b)
	}
	r.observe("create@return")
	for i, op := range hist {
		r.cur = fmt.Sprintf("#%d %s", i, op)
		switch op.Kind {
		case "save", "overwrite", "overwrite2", "commit", "vote", "term":
			var ents []raftpb.Entry
			st := raftpb.HardState{Term: r.term, Vote: r.vote, Commit: r.commit}
			switch op.Kind {
			case "vote":
				// a vote granted in the current term: a hard state alone, only Vote differs
				r.vote = r.vote%3 + 1
				st.Vote = r.vote
			case "term":
				// a higher term learnt from a message: a hard state alone, only Term differs
				r.term++
				st.Term = r.term
			case "save":
				if op.Bump {
					r.term++
					st.Term = r.term
				}
				for k := 0; k < op.N; k++ {
					r.last++
					ents = append(ents, raftpb.Entry{Index: r.last, Term: r.term, Data: payload(op.Size, byte(i*16+k))})
				}
			case "overwrite":
				if r.last == 0 || r.last <= r.commit {
					continue
				}
				r.term++
				st.Term = r.term
				ents = append(ents, raftpb.Entry{Index: r.last, Term: r.term, Data: payload(op.Size, byte(i*16+9))})
			case "overwrite2":
				// a new leader's entry replaces the last two uncommitted entries by one
				if r.last < 2 || r.last-1 <= r.commit {
					continue
				}
				r.term++
				st.Term = r.term
				r.last--
				ents = append(ents, raftpb.Entry{Index: r.last, Term: r.term, Data: payload(op.Size, byte(i*16+10))})
			case "commit":
				if r.commit >= r.last {
					continue
				}
				target := r.last
				if op.N > 0 && uint64(op.N) < r.last && uint64(op.N) > r.commit {
					target = uint64(op.N) // scripted histories: commit up to a given index only
				}
				r.commit = target
				st.Commit = r.commit
			}
			for _, e := range ents {
				r.recs = append(r.recs, Rec{Kind: "entry", Entry: e})
			}
			r.recs = append(r.recs, Rec{Kind: "state", State: st})
			prevTerm, prevVote := r.lastSavedTerm, r.lastSavedVote
			if err := r.w.Save(st, ents); err != nil {
				return r.obs, r.recs, err
			}
			r.lastSavedTerm, r.lastSavedVote = st.Term, st.Vote
			// the WAL's contract (independent of which syncs the code happened to issue):
			// default mode: a Save with entries or a term/vote change is durable on return;
			// optimized mode: only a term/vote change forces the sync
			changed := st.Term != prevTerm || st.Vote != prevVote
			if (!optFsync && (len(ents) > 0 || changed)) || (optFsync && changed) {
				r.durable = len(r.recs)
			}
		case "snap":
			if r.commit == 0 {
				continue
			}
			s := walpb.Snapshot{Index: r.commit, Term: r.term}
			r.recs = append(r.recs, Rec{Kind: "snap", Snap: s})
			if err := r.w.SaveSnapshot(s); err != nil {
				return r.obs, r.recs, err
			}
			if !optFsync {
				r.durable = len(r.recs)
			}
		case "release":
			r.w.ReleaseLockTo(r.commit)
		case "sync":
			if err := r.w.Sync(); err != nil {
				return r.obs, r.recs, err
			}
			r.durable = len(r.recs)
		case "reopen":
			if err := r.w.Close(); err != nil {
				return r.obs, r.recs, err
			}
			r.durable = len(r.recs)
			w, err := wal.Open(dir, walpb.Snapshot{}, optFsync)
			if err != nil {
				return r.obs, r.recs, err
			}
			r.w = w
			if _, _, _, err := w.ReadAll(); err != nil {
				return r.obs, r.recs, fmt.Errorf("ReadAll after clean close: %v", err)
			}
		}
		r.observe(r.cur + "@return")
	}
	r.cur = "final-close"
	r.w.Close()
	closed = true
	r.observe("close@return")
	return r.obs, r.recs, nil
}

// ---- recovery under test -------------------------------------------------------------------------

// Recover mirrors raftNode.openWAL(readOld=true): Open + ReadAll, on error Repair once and retry.
func Recover(dir string) (f Folded, err error, repaired bool) {
	var cur *wal.WAL
	defer func() {
		if r := recover(); r != nil {
			err = fmt.Errorf("panic: %v", r)
			if cur != nil {
				// stop the segment pre-allocation goroutine of the abandoned WAL: it would
				// create and lock "0.tmp" in the next image directory (same path)
				func() {
					defer func() { recover() }()
					cur.Close()
				}()
			}
		}
	}()
	for {
		w, oerr := wal.Open(dir, walpb.Snapshot{}, false)
		if oerr != nil {
			return f, oerr, repaired
		}
		cur = w
		_, st, ents, rerr := w.ReadAll()
		if rerr != nil {
			w.Close()
			cur = nil
			if repaired || !wal.Repair(dir) {
				return f, rerr, repaired
			}
			repaired = true
			continue
		}
		w.Close()
		cur = nil
		return Folded{State: st, Ents: ents}, nil, repaired
	}
}

// openAtSnapshot: open the recovered image at its newest valid snapshot marker, as the node does; hard
// state and the entries after the marker must be those of the full read.
func openAtSnapshot(dir string, full Folded) (msg string) {
	snaps, err := wal.ValidSnapshotEntries(dir)
	if err != nil || len(snaps) == 0 {
		return ""
	}
	sn := snaps[len(snaps)-1]
	if sn.Index == 0 {
		return ""
	}
	var cur *wal.WAL
	defer func() {
		if r := recover(); r != nil {
			msg = fmt.Sprintf("panic while opening at snapshot marker %d: %v", sn.Index, r)
			if cur != nil {
				func() {
					defer func() { recover() }()
					cur.Close()
				}()
			}
		}
	}()
	w, err := wal.Open(dir, sn, false)
	if err != nil {
		return fmt.Sprintf("open at the newest snapshot marker (index %d term %d): %v, although a read from the start succeeds", sn.Index, sn.Term, err)
	}
	cur = w
	_, st, ents, err := w.ReadAll()
	w.Close()
	cur = nil
	if err != nil {
		return fmt.Sprintf("ReadAll after opening at snapshot marker %d: %v, although a read from the start succeeds", sn.Index, err)
	}
	var want []raftpb.Entry
	for _, e := range full.Ents {
		if e.Index > sn.Index {
			want = append(want, e)
		}
	}
	got := Folded{State: st, Ents: ents}
	exp := Folded{State: full.State, Ents: want}
	if got.key() != exp.key() {
		return fmt.Sprintf("opened at its newest snapshot marker (index %d) the log reads {%s}, the tail of a read from the start is {%s}", sn.Index, got.key(), exp.key())
	}
	return ""
}

// continueProbe: open the (already recovered) image for append, save one more entry, close,
// reopen: the result must be the recovered state plus the new entry.
func continueProbe(dir string, got Folded) (msg string) {
	var cur *wal.WAL
	defer func() {
		if r := recover(); r != nil {
			msg = fmt.Sprintf("panic while appending after recovery: %v", r)
			if cur != nil {
				func() {
					defer func() { recover() }()
					cur.Close()
				}()
			}
		}
	}()
	w, err := wal.Open(dir, walpb.Snapshot{}, false)
	if err != nil {
		return fmt.Sprintf("open for append after recovery: %v", err)
	}
	cur = w
	if _, _, _, err := w.ReadAll(); err != nil {
		w.Close()
		return fmt.Sprintf("ReadAll before append after recovery: %v", err)
	}
	next := uint64(1)
	term := got.State.Term
	if n := len(got.Ents); n > 0 {
		next = got.Ents[n-1].Index + 1
		if got.Ents[n-1].Term > term {
			term = got.Ents[n-1].Term
		}
	}
	if term == 0 {
		term = 1
	}
	// longer than a sector: the new record must run over whatever followed the last valid record
	e := raftpb.Entry{Index: next, Term: term, Data: payload(700, 0x40)}
	hs := raftpb.HardState{Term: term, Vote: 1, Commit: got.State.Commit}
	if err := w.Save(hs, []raftpb.Entry{e}); err != nil {
		w.Close()
		return fmt.Sprintf("Save after recovery: %v", err)
	}
	w.Close()
	again, rerr, _ := Recover(dir)
	if rerr != nil {
		return fmt.Sprintf("after appending one entry to the recovered log, reopen fails: %v", rerr)
	}
	want := Folded{State: hs, Ents: append(append([]raftpb.Entry(nil), got.Ents...), e)}
	if again.key() != want.key() {
		return fmt.Sprintf("after appending one entry to the recovered log, reopen returns {%s}, expected {%s}", again.key(), want.key())
	}
	return ""
}

func writeImage(dir string, files map[string][]byte) {
	os.RemoveAll(dir)
	os.MkdirAll(dir, 0o755)
	for n, b := range files {
		if strings.HasSuffix(n, ".tmp") {
			continue // a pre-allocated segment not yet renamed is ignored by the reader
		}
		ioutil.WriteFile(filepath.Join(dir, n), b, 0o600)
	}
}

type Stats struct {
	Histories, Observations, Images, ReopenOK, ReopenErr, Repaired, BitFlips, FlipErr, FlipOK, FlipsCut int
}

// FlipDeadline lets the caller cut the bit-flip pass short (reported as incomplete).
var FlipDeadline func() bool

func tailName(files map[string][]byte) string {
	var names []string
	for n := range files {
		if strings.HasSuffix(n, ".wal") {
			names = append(names, n)
		}
	}
	sort.Strings(names)
	if len(names) == 0 {
		return ""
	}
	return names[len(names)-1]
}

// CheckHistory enumerates the crash images of one history.
// AllOffsets: enumerate every byte offset of the unsynced tail (thorough). The quick tier keeps
// every offset within 48 bytes of either end of the unsynced region, every frame-aligned
// offset and the offsets around 512-byte sector edges.
var AllOffsets = true

func keepOffset(c, from, to int) bool {
	if AllOffsets || c-from < 48 || to-c < 48 || c%8 == 0 {
		return true
	}
	m := c % 512
	return m <= 2 || m >= 510
}

func CheckHistory(col *ev.Collector, scratch string, hist []Op, optFsync bool, flips bool, st *Stats) {
	label := fmt.Sprintf("history %v optimized-fsync=%v", hist, optFsync)
	obs, recs, err := Execute(filepath.Join(scratch, "run", "wal"), hist, optFsync)
	if err != nil {
		col.Add(ev.Violation{Property: "C05", Signature: "C05|api-error", What: fmt.Sprintf("%s: %v", label, err), Replay: map[string]interface{}{"history": hist, "optimized_fsync": optFsync}})
		return
	}
	st.Histories++
	img := filepath.Join(scratch, "img", "wal")
	// acceptable results per (durable, issued) window
	acceptable := func(lo, hi int) map[string]int {
		m := map[string]int{}
		for p := lo; p <= hi; p++ {
			m[fold(recs[:p]).key()] = p
		}
		return m
	}
	try := func(o Obs, files map[string][]byte, kind, detail string, mustSucceed bool, lo int) {
		writeImage(img, files)
		got, rerr, repaired := Recover(img)
		st.Images++
		if repaired {
			st.Repaired++
		}
		if rerr != nil {
			st.ReopenErr++
			if mustSucceed {
				col.Add(ev.Violation{Property: "C05", Signature: "C05|" + kind + "|reopen-fails",
					What:   fmt.Sprintf("%s: image at %s (%s): reopen fails with %v although every written byte survived", label, o.Label, detail, rerr),
					Replay: map[string]interface{}{"history": hist, "optimized_fsync": optFsync, "observation": o.Label, "image": detail}})
			}
			return
		}
		st.ReopenOK++
		// the node does not read its WAL from the beginning: it opens it at the newest snapshot marker
		// (node/raft.go openWAL). That view must be the tail of the full view.
		if msg := openAtSnapshot(img, got); msg != "" {
			col.Add(ev.Violation{Property: "C05", Signature: "C05|" + kind + "|open-at-snapshot-marker",
				What:   fmt.Sprintf("%s: image at %s (%s): %s", label, o.Label, detail, msg),
				Replay: map[string]interface{}{"history": hist, "optimized_fsync": optFsync, "observation": o.Label, "image": detail}})
		}
		if kind == "torn-sectors" || (kind != "process-kill" && st.Images%4 == 0) {
			// the recovered log must accept appends and read back with them (ReadAll has to
			// zero what follows the last valid record, or later opens hit stale bytes)
			if msg := continueProbe(img, got); msg != "" {
				col.Add(ev.Violation{Property: "C05", Signature: "C05|" + kind + "|append-after-recovery",
					What:   fmt.Sprintf("%s: image at %s (%s): %s", label, o.Label, detail, msg),
					Replay: map[string]interface{}{"history": hist, "optimized_fsync": optFsync, "observation": o.Label, "image": detail}})
			}
		}
		acc := acceptable(lo, o.Issued)
		if _, ok := acc[got.key()]; !ok {
			// is it at least some prefix (then: durable records lost) or not a prefix at all?
			sig := "returns-non-prefix"
			if _, any := acceptable(0, o.Issued)[got.key()]; any {
				sig = "loses-durable-records"
			}
			col.Add(ev.Violation{Property: "C05", Signature: "C05|" + kind + "|" + sig,
				What:   fmt.Sprintf("%s: image at %s (%s): reopen returns {%s}; records %d..%d had to survive (fold of durable prefix {%s})", label, o.Label, detail, got.key(), 0, lo, fold(recs[:lo]).key()),
				Replay: map[string]interface{}{"history": hist, "optimized_fsync": optFsync, "observation": o.Label, "image": detail}})
		}
	}
	for _, o := range obs {
		st.Observations++
		tail := tailName(o.Files)
		if tail == "" {
			continue
		}
		// (I0) process kill: every written byte survives. Must reopen; nothing durable is lost.
		try(o, o.Files, "process-kill", "all written bytes", true, o.Durable)
		// (I1) power loss: the unsynced suffix of the tail segment is cut at every byte offset
		content := o.Files[tail]
		from, to := o.Synced[tail], dataEnd(content)
		if from > to {
			from = to
		}
		for c := from; c < to; c++ {
			if !keepOffset(c, from, to) {
				continue
			}
			f2 := map[string][]byte{}
			for n, b := range o.Files {
				f2[n] = b
			}
			z := append([]byte(nil), content...)
			for i := c; i < len(z); i++ {
				z[i] = 0
			}
			f2[tail] = z
			try(o, f2, "torn-tail", fmt.Sprintf("tail %s kept up to byte %d of %d, rest zero", tail, c, to), false, o.Durable)
			f3 := map[string][]byte{}
			for n, b := range o.Files {
				f3[n] = b
			}
			f3[tail] = append([]byte(nil), content[:c]...)
			try(o, f3, "short-tail", fmt.Sprintf("tail %s shortened to %d of %d bytes", tail, c, to), false, o.Durable)
		}
		// (I2) zeroed sector subsets of the unsynced region
		first := from / 512
		lastS := (to + 511) / 512
		ns := lastS - first
		if ns > 0 && to > from {
			var masks []uint
			if ns <= 6 {
				for m := uint(1); m < 1<<uint(ns); m++ {
					masks = append(masks, m)
				}
			} else {
				for s := 0; s < ns; s++ {
					masks = append(masks, 1<<uint(s)) // single holes
				}
			}
			for _, m := range masks {
				z := append([]byte(nil), content...)
				for s := 0; s < ns; s++ {
					if m&(1<<uint(s)) == 0 {
						continue
					}
					lo, hi := (first+s)*512, (first+s+1)*512
					if lo < from {
						lo = from // the synced part of a sector is durable
					}
					if hi > len(z) {
						hi = len(z)
					}
					for i := lo; i < hi; i++ {
						z[i] = 0
					}
				}
				f2 := map[string][]byte{}
				for n, b := range o.Files {
					f2[n] = b
				}
				f2[tail] = z
				try(o, f2, "torn-sectors", fmt.Sprintf("unsynced sectors %b of tail %s zeroed", m, tail), false, o.Durable)
			}
		}
	}
	// (I3) single-bit flips in the synced region of the final image
	if flips && len(obs) > 0 {
		o := obs[len(obs)-1]
		all := acceptable(0, o.Issued)
		for name, content := range o.Files {
			end := dataEnd(content)
			for bit := 0; bit < end*8; bit++ {
				if FlipDeadline != nil && FlipDeadline() {
					st.FlipsCut++
					break
				}
				z := append([]byte(nil), content...)
				z[bit/8] ^= 1 << uint(bit%8)
				f2 := map[string][]byte{}
				for n, b := range o.Files {
					f2[n] = b
				}
				f2[name] = z
				writeImage(img, f2)
				got, rerr, _ := Recover(img)
				st.BitFlips++
				if rerr != nil {
					st.FlipErr++
					continue
				}
				st.FlipOK++
				if _, ok := all[got.key()]; !ok {
					col.Add(ev.Violation{Property: "C05", Signature: "C05|bitflip|" + flipClass(content, bit),
						What:   fmt.Sprintf("%s: flipping bit %d of byte %d in %s: reopen returns without error {%s}, which is not the effect of any prefix of the saved records", label, bit%8, bit/8, name, got.key()),
						Replay: map[string]interface{}{"history": hist, "file": name, "bit": bit}})
				}
			}
		}
	}
}

// flipClass: which part of a record frame was hit (for the findings signature)
func flipClass(content []byte, bit int) string {
	// walk the frames: 8-byte length field (low 56 bits length, top byte padding info), then the record
	off := 0
	target := bit / 8
	for off+8 <= len(content) {
		lenField := int64(0)
		for i := 7; i >= 0; i-- {
			lenField = lenField<<8 | int64(content[off+i])
		}
		recBytes := int(lenField & 0x00ffffffffffffff)
		pad := 0
		if lenField < 0 {
			pad = int((uint64(lenField) >> 56) & 0x7)
		}
		if recBytes == 0 {
			break
		}
		if target < off+8 {
			return "frame-length-field"
		}
		if target < off+8+recBytes {
			// inside the protobuf record: field 1 = Type (tag 0x08, value), field 2 = crc, field 3 = data
			rel := target - (off + 8)
			if rel == 1 && content[off+8] == 0x08 {
				return "Record.Type"
			}
			if rel < 8 {
				return "record-header"
			}
			return "record-data"
		}
		off += 8 + recBytes + pad
		if target < off {
			return "frame-padding"
		}
	}
	return "outside-records"
}

// DeepHistories: scripted histories longer than the enumerated depth. A snapshot marker behind the tail of
// the log, a segment cut caused by a save that carries only a hard state, a later marker between the first
// one and the tail, more entries: the node then opens the log at that later marker. The entry size is
// varied so that for some of them the cut falls exactly on the hard-state-only save.
func DeepHistories() [][]Op {
	var out [][]Op
	for size := 300; size <= 470; size += 10 {
		for _, hsOnly := range []string{"vote", "term"} {
			out = append(out, []Op{{Kind: "save", N: 1, Size: 7}, {Kind: "commit"}, {Kind: "save", N: 2, Size: size}, {Kind: "snap"}, {Kind: hsOnly},
				{Kind: "commit", N: 2}, {Kind: "snap"}, {Kind: "save", N: 1, Size: 7}})
		}
	}
	return out
}

func Histories(alpha []Op, depth int) [][]Op {
	var out [][]Op
	var rec func(cur []Op)
	rec = func(cur []Op) {
		if len(cur) > 0 {
			out = append(out, append([]Op(nil), cur...))
		}
		if len(cur) == depth {
			return
		}
		for _, o := range alpha {
			rec(append(cur, o))
		}
	}
	rec(nil)
	return out
}

var _ = bytes.Equal
