#!/usr/bin/env python3
"""Generate a `go build -overlay` file from /repo's *current working tree*.

Nothing in /repo is modified.  The overlay
  * replaces five files of the module-cache copy of youzan/gorocksdb by patched
    copies (librocksdb 7.8 compatibility, see DESIGN.md 2.1),
  * replaces ugorji/go/codec/gen.go by a copy with a legal base64 alphabet,
  * adds every file under /verif/shims/<pkg path>/ to /repo/<pkg path>/
    (all of them carry //go:build verif),
  * replaces raft/node.go by a derived copy with small queue constants,
  * optionally (--vclock) replaces $GOROOT/src/time/time.go by a derived copy with
    a settable wall-clock offset,
  * optionally (--crash LIST) replaces files by AST-instrumented copies with crash
    points (tools/instrument).

usage: mkoverlay.py <name> [--vclock] [--crash] [--noqueue]
prints the path of the overlay json.
An anchor that cannot be found exits 2 with an INFRA: line (never a verdict).
"""
import json, os, re, subprocess, sys, hashlib

VERIF = os.path.dirname(os.path.dirname(os.path.abspath(__file__)))
REPO = os.environ.get("VERIF_REPO", "/repo")
BUILD = os.path.join(VERIF, "build")
MODCACHE = subprocess.check_output(["go", "env", "GOMODCACHE"], text=True).strip()
GOROOT = subprocess.check_output(["go", "env", "GOROOT"], text=True).strip()
GOROCKS = os.path.join(MODCACHE, "github.com/youzan/gorocksdb@v0.0.0-20201201080653-1a9b5c65c962")
UGORJI = os.path.join(MODCACHE, "github.com/ugorji/go@v0.0.0-20170107133203-ded73eae5db7/codec/gen.go")


def infra(msg):
    print("INFRA: " + msg)
    sys.exit(2)


def write_if_changed(path, data):
    os.makedirs(os.path.dirname(path), exist_ok=True)
    if isinstance(data, str):
        data = data.encode()
    try:
        with open(path, "rb") as f:
            if f.read() == data:
                return
    except FileNotFoundError:
        pass
    tmp = path + ".tmp%d" % os.getpid()
    with open(tmp, "wb") as f:
        f.write(data)
    os.replace(tmp, path)


def third_party(rep):
    tp = os.path.join(BUILD, "third_party")
    gdir = os.path.join(tp, "gorocksdb")
    files = ["db.go", "options.go", "rate_limiter.go", "filter_policy.go", "gorocksdb.c"]
    stamp = os.path.join(gdir, ".ok")
    if not os.path.exists(stamp):
        os.makedirs(gdir, exist_ok=True)
        for f in files:
            with open(os.path.join(GOROCKS, f), "rb") as s:
                write_if_changed(os.path.join(gdir, f), s.read())
            os.chmod(os.path.join(gdir, f), 0o644)
        r = subprocess.run(["patch", "-p1", "-s", "-i", os.path.join(VERIF, "appendix/gorocksdb-librocksdb7.8.patch")],
                           cwd=gdir, capture_output=True, text=True)
        if r.returncode != 0:
            infra("gorocksdb patch failed: " + r.stdout + r.stderr)
        open(stamp, "w").write("ok")
    for f in files:
        rep[os.path.join(GOROCKS, f)] = os.path.join(gdir, f)
    src = open(UGORJI).read()
    if src.count('0123456789__")') != 1:
        infra("ugorji gen.go anchor not found")
    write_if_changed(os.path.join(tp, "ugorji_gen.go"), src.replace('0123456789__")', '0123456789_-")'))
    rep[UGORJI] = os.path.join(tp, "ugorji_gen.go")
    lib = os.path.join(BUILD, "lib")
    if not os.path.exists(os.path.join(lib, "libjemalloc.a")):
        os.makedirs(lib, exist_ok=True)
        subprocess.check_call(["ar", "rc", os.path.join(lib, "libjemalloc.a")])


def shims(rep):
    root = os.path.join(VERIF, "shims")
    for d, _, fs in os.walk(root):
        for f in fs:
            if not f.endswith(".go"):
                continue
            rel = os.path.relpath(os.path.join(d, f), root)
            rep[os.path.join(REPO, rel)] = os.path.join(d, f)


MUT = {}  # /repo path -> mutated copy (calibration runs only, see tools/mutate.sh)


def rsrc(p):
    return MUT.get(p, p)


def load_mutation(rep, name, patch):
    """Apply a patch to *copies* of the files it touches; /repo stays untouched."""
    d = os.path.join(BUILD, "derived", name, "mut")
    subprocess.call(["rm", "-rf", d])
    os.makedirs(d)
    files = [l[6:].strip() for l in open(patch) if l.startswith("+++ b/")]
    for f in files:
        os.makedirs(os.path.dirname(os.path.join(d, f)), exist_ok=True)
        if os.path.exists(os.path.join(REPO, f)):
            subprocess.check_call(["cp", os.path.join(REPO, f), os.path.join(d, f)])
    r = subprocess.run(["patch", "-p1", "-s", "-i", os.path.abspath(patch)], cwd=d, capture_output=True, text=True)
    if r.returncode != 0:
        infra("mutation patch failed: " + r.stdout + r.stderr)
    for f in files:
        MUT[os.path.join(REPO, f)] = os.path.join(d, f)
        rep[os.path.join(REPO, f)] = os.path.join(d, f)


def derive_queue(rep, name):
    p = os.path.join(REPO, "raft/node.go")
    src = open(rsrc(p)).read()
    out, n1 = re.subn(r"recvQueueLen(\s*)=\s*1024 \* 16", r"recvQueueLen\1= 8", src)
    out, n2 = re.subn(r"proposalQueueLen(\s*)=\s*1024 \* 4", r"proposalQueueLen\1= 8", out)
    if n1 != 1 or n2 != 1:
        infra("raft/node.go queue constants anchor not found (%d,%d)" % (n1, n2))
    dst = os.path.join(BUILD, "derived", name, "raft_node.go")
    write_if_changed(dst, out)
    rep[p] = dst


def derive_fsync(rep, name):
    """fileutil.Fsync/Fdatasync get an observer call after a successful sync (C05): the crash
    image enumerator needs to know which bytes were durable at which moment."""
    p = os.path.join(REPO, "pkg/fileutil/sync_linux.go")
    src = open(rsrc(p)).read()
    a1 = "func Fsync(f *os.File) error {\n\treturn f.Sync()\n}"
    a2 = "func Fdatasync(f *os.File) error {\n\treturn syscall.Fdatasync(int(f.Fd()))\n}"
    if src.count(a1) != 1 or src.count(a2) != 1:
        infra("fileutil sync anchors not found")
    out = src.replace(a1, "func Fsync(f *os.File) error {\n\terr := f.Sync()\n\tif err == nil && VerifSyncHook != nil {\n\t\tVerifSyncHook(f, false)\n\t}\n\treturn err\n}")
    out = out.replace(a2, "func Fdatasync(f *os.File) error {\n\terr := syscall.Fdatasync(int(f.Fd()))\n\tif err == nil && VerifSyncHook != nil {\n\t\tVerifSyncHook(f, true)\n\t}\n\treturn err\n}")
    out += "\n// VerifSyncHook is called after every successful sync (injected by /verif's overlay).\nvar VerifSyncHook func(f *os.File, dataOnly bool)\n"
    dst = os.path.join(BUILD, "derived", name, "sync_linux.go")
    write_if_changed(dst, out)
    rep[p] = dst


def derive_pdcoord(rep, name):
    """doCheckNamespaces starts with a fixed 10 ms sleep (debounce); the explorer calls it
    tens of thousands of times, so the derived copy drops that one statement."""
    p = os.path.join(REPO, "cluster/pdnode_coord/pd_coordinator.go")
    src = open(rsrc(p)).read()
    anchor = "\ttime.Sleep(time.Millisecond * 10)\n\tdefer atomic.StoreInt32(&pdCoord.doChecking, 0)\n"
    if src.count(anchor) != 1:
        infra("pd_coordinator.go debounce anchor not found")
    out = src.replace(anchor, "\tdefer atomic.StoreInt32(&pdCoord.doChecking, 0)\n")
    dst = os.path.join(BUILD, "derived", name, "pd_coordinator.go")
    write_if_changed(dst, out)
    rep[p] = dst


def derive_vclock(rep, name):
    p = os.path.join(GOROOT, "src/time/time.go")
    src = open(p).read()
    anchor = "func Now() Time {\n\tsec, nsec, mono := now()\n"
    if src.count(anchor) != 1:
        infra("time.Now anchor not found")
    out = src.replace(anchor, anchor + "\tif verifFixedSec != 0 {\n\t\tsec, nsec = verifFixedSec, verifFixedNsec\n\t}\n")
    dst = os.path.join(BUILD, "derived", name, "time.go")
    write_if_changed(dst, out)
    rep[p] = dst
    off = os.path.join(BUILD, "derived", name, "verif_clock.go")
    write_if_changed(off, """package time

var verifFixedSec int64
var verifFixedNsec int32

// VerifSetWallClock freezes the wall-clock reading of Now() at the given unix time
// (sec == 0 releases it). Monotonic readings, timers and tickers are unaffected.
func VerifSetWallClock(sec int64, nsec int32) { verifFixedSec, verifFixedNsec = sec, nsec }
""")
    rep[os.path.join(GOROOT, "src/time/verif_clock.go")] = off


def derive_crash(rep, name):
    """C06: copies of the files listed in tools/instrument/crashpoints.json with a call
    verifCrashPoint("<file>:<func>:<n>@L<line>") before every statement of the listed functions."""
    tool = os.path.join(BUILD, "bin", "instrument")
    tdir = os.path.join(VERIF, "tools/instrument")
    if not os.path.exists(tool) or os.path.getmtime(tool) < os.path.getmtime(os.path.join(tdir, "main.go")):
        r = subprocess.run(["go", "build", "-o", tool, "."], cwd=tdir, capture_output=True, text=True)
        if r.returncode != 0:
            infra("cannot build tools/instrument: " + r.stdout + r.stderr)
    cfg = json.load(open(os.path.join(tdir, "crashpoints.json")))
    outdir = os.path.join(BUILD, "derived", name, "crash")
    os.makedirs(outdir, exist_ok=True)
    points = []
    for rel, funcs in sorted(cfg.items()):
        src = os.path.join(REPO, rel)
        eff = rep.get(src, rsrc(src))
        dst = os.path.join(outdir, rel.replace("/", "__"))
        tmp = dst + ".inst%d" % os.getpid()
        r = subprocess.run([tool, "-in", eff, "-out", tmp, "-label", rel, "-funcs", ",".join(funcs)], capture_output=True, text=True)
        if r.returncode != 0:
            infra("instrument %s failed: %s%s" % (rel, r.stdout, r.stderr))
        write_if_changed(dst, open(tmp, "rb").read())
        os.remove(tmp)
        rep[src] = dst
        points += [l[6:] for l in r.stdout.splitlines() if l.startswith("POINT ")]
    write_if_changed(os.path.join(outdir, "points.txt"), "\n".join(points) + "\n")


def main():
    args = sys.argv[1:]
    name = args[0]
    rep = {}
    if "--mutation" in args:
        load_mutation(rep, name, args[args.index("--mutation") + 1])
    third_party(rep)
    shims(rep)
    if "--noqueue" not in args:
        derive_queue(rep, name)
    derive_pdcoord(rep, name)
    derive_fsync(rep, name)
    if "--vclock" in args:
        derive_vclock(rep, name)
    if "--crash" in args:
        derive_crash(rep, name)
    out = os.path.join(BUILD, "overlay-%s.json" % name)
    write_if_changed(out, json.dumps({"Replace": rep}, indent=1, sort_keys=True))
    print(out)


if __name__ == "__main__":
    main()
