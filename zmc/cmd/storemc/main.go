// storemc: checks that drive the real state machine / data mapping directly (C08, C09, ...).
package main

import (
	"flag"
	"fmt"
	"os"
	"sync"
	"time"

	"github.com/youzan/ZanRedisDB/common"
	"zmc/ev"
	"zmc/storemc"
)

type pol struct {
	name string
	p    common.ExpirationPolicy
	v    common.DataVersionT
}

var policies = []pol{{"local_deletion", common.LocalDeletion, common.DefaultDataVer}, {"wait_compact", common.WaitCompact, common.ValueHeaderV1}}

const T0 = int64(1600000000) * 1e9

func main() {
	prop := flag.String("prop", "C09", "")
	tier := flag.String("tier", "quick", "")
	replay := flag.String("replay", "", "")
	flag.Parse()
	if *replay != "" {
		os.Exit(storemc.Replay(*prop, *replay))
	}
	switch *prop {
	case "C08", "C09":
		os.Exit(runC0809(*prop, *tier))
	}
	fmt.Println("INFRA: unknown property", *prop)
	os.Exit(2)
}

func skipTableMeta(k string) bool {
	// per-table key counters: merge-only statistics no command handler reads back
	return len(k) > 0 && k[0] == 10
}

func runC0809(prop, tier string) int {
	quick := tier == "quick"
	col := ev.NewCollector(prop, tier, "model_checking")
	dl := ev.NewDeadline(ev.EnvDur("VERIF_BUDGET", map[bool]time.Duration{true: 150 * time.Second, false: 20 * time.Minute}[quick]))
	engines := []string{"mem-skiplist", "pebble"}
	if !quick {
		engines = []string{"mem-skiplist", "pebble", "mem-btree", "rocksdb"}
	}
	oracles := []storemc.Oracle{storemc.C09Oracle}
	if prop == "C08" {
		oracles = []storemc.Oracle{storemc.C08Oracle}
	}
	var mu sync.Mutex
	states, trans := 0, 0
	exhaustive := true
	var per []interface{}
	for _, eng := range engines {
		var wg sync.WaitGroup
		for _, p := range policies {
			for _, u := range storemc.AllUniverses() {
				variants := []([]string){nil}
				if prop == "C09" {
					variants = append(variants, []string{"set", "t:pre", "1"})
				}
				for _, pre := range variants {
					wg.Add(1)
					go func(p pol, u *storemc.Universe, pre []string) {
						defer wg.Done()
						depth := map[string]int{"hash": 5, "set": 5, "list": 5, "zset": 5, "kv": 5, "cross-type": 6}[u.Name]
						if quick {
							depth--
						}
						if eng != "mem-skiplist" {
							depth--
						}
						if eng == "rocksdb" {
							depth -= 2
						}
						if pre != nil {
							depth--
						}
						s := storemc.Open(storemc.Options{Engine: eng, Policy: p.p, DataVer: p.v, Leader: true})
						defer s.Destroy()
						label := fmt.Sprintf("%s/%s/%s", eng, p.name, u.Name)
						if pre != nil {
							label += "/in-batch-after-set"
						}
						t0 := time.Now()
						res := storemc.BFS(s, u, storemc.BFSOptions{MaxDepth: depth, T0: T0, StepNs: 1e9, SkipKey: skipTableMeta, Deadline: dl, InBatchPrefix: pre}, oracles, col, label)
						mu.Lock()
						states += res.States
						trans += res.Transitions
						if res.DeadlineHit {
							exhaustive = false
						}
						per = append(per, map[string]interface{}{"search": label, "states": res.States, "transitions": res.Transitions, "depth": res.Depth, "bound": depth,
							"fixpoint": res.Fixpoint, "deadline_hit": res.DeadlineHit, "frontier_per_level": res.Levels, "commands": len(u.Cmds), "wall_s": time.Since(t0).Seconds()})
						mu.Unlock()
						fmt.Printf("[%s] %s: states=%d transitions=%d depth=%d/%d fixpoint=%v deadline=%v %.1fs\n", prop, label, res.States, res.Transitions, res.Depth, depth, res.Fixpoint, res.DeadlineHit, time.Since(t0).Seconds())
					}(p, u, pre)
					if os.Getenv("VERIF_SERIAL") != "" {
						wg.Wait()
					}
				}
			}
		}
		wg.Wait()
	}
	col.Set("states", states)
	col.Set("transitions", trans)
	col.Set("traces_validated_against_impl", trans)
	col.Set("exhaustive", exhaustive)
	col.Set("searches", per)
	col.Set("rule", "BFS over physical store states (full engine dump minus per-table key counters) of tiny per-type universes; every command instance of the alphabet is a transition applied through StateMachine.ApplyRaftRequest on the real store; oracle evaluated through the real read handlers after every transition; violating states are not expanded")
	for _, u := range storemc.AllUniverses() {
		col.Sample(map[string]interface{}{"universe": u.Name, "commands": u.Cmds})
	}
	col.Assume = []string{"leader-side argument validation is not on this path (C11 covers it on a real server)", "log timestamps increase by 1s per BFS level"}
	return col.Finish()
}
