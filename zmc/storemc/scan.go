package storemc

import (
	"fmt"
	"sort"
	"strings"

	"github.com/gobwas/glob"
	"github.com/youzan/ZanRedisDB/common"
	"zmc/ev"
)

// C13: cursor scans. Every subset of an adversarial name pool is a population; decoys live
// in neighbouring tables, other types and other collections. Every COUNT from 1 to n+1, both
// directions, MATCH patterns; the cursor is chained until it comes back empty.

var ScanPool = []string{"a", "0", "a:", "a:b", "ab", "b", "\x00", "\xff", "a;"} // "0": the cursor redis clients start an iteration with
var ScanDecoyTables = []string{"s", "t2", "t\x00", "u"}
var ScanPatterns = []string{"*", "a*", "*b", "?", "ab", "a:*"}

var scanTypes = []string{"KV", "HASH", "LIST", "SET", "ZSET"}

func (s *Store) mergeCall(args ...string) (*common.ScanResult, error) {
	h, _, ok := s.RN.VerifMergeHandler(strings.ToLower(args[0]))
	if !ok {
		return nil, fmt.Errorf("no merge handler %s", args[0])
	}
	a := toArgs(args)
	a[1] = []byte(NS + ":" + args[1])
	v, err := h(common.BuildCommand(a))
	if err != nil {
		return nil, err
	}
	r, ok := v.(*common.ScanResult)
	if !ok {
		return nil, fmt.Errorf("unexpected result %T", v)
	}
	return r, r.Error
}

// MergeInt calls a merge read handler whose result is a number (EXISTS); keys are given without namespace.
func (s *Store) MergeInt(args ...string) Reply {
	h, _, ok := s.RN.VerifMergeHandler(strings.ToLower(args[0]))
	if !ok {
		return Err("no merge handler " + args[0])
	}
	a := toArgs(args)
	for i := 1; i < len(a); i++ {
		a[i] = []byte(NS + ":" + args[i])
	}
	v, err := h(common.BuildCommand(a))
	if err != nil {
		return Err(err.Error())
	}
	if n, ok := v.(int64); ok {
		return Int(n)
	}
	return Err(fmt.Sprintf("unexpected result %T", v))
}

func createKey(s *Store, ts int64, typ, table, name string) {
	k := table + ":" + name
	var r Reply
	switch typ {
	case "KV":
		r = s.Write(ts, "set", k, "v")
	case "HASH":
		r = s.Write(ts, "hset", k, "f", "v")
	case "LIST":
		r = s.Write(ts, "rpush", k, "v")
	case "SET":
		r = s.Write(ts, "sadd", k, "m")
	case "ZSET":
		r = s.Write(ts, "zadd", k, "1", "m")
	}
	if r.IsErr() && table == "t" {
		panic(fmt.Sprintf("create %s %q: %v", typ, k, r))
	}
}

type ScanStats struct {
	Chains, Pages, Populations int
	NonEmptyChains             int
}

func subsetOf(pool []string, mask int) []string {
	var out []string
	for i, n := range pool {
		if mask&(1<<i) != 0 {
			out = append(out, n)
		}
	}
	sort.Strings(out)
	return out
}

func reversed(a []string) []string {
	out := make([]string, len(a))
	for i := range a {
		out[len(a)-1-i] = a[i]
	}
	return out
}

func matching(names []string, pat string) []string {
	if pat == "" {
		return names
	}
	g := glob.MustCompile(pat)
	var out []string
	for _, n := range names {
		if g.Match(n) {
			out = append(out, n)
		}
	}
	return out
}

// chainKeys runs SCAN/ADVSCAN over table t until the empty cursor; returns the concatenated names.
func chainKeys(s *Store, st *ScanStats, typ string, adv bool, reverse bool, start string, count int, pat string, horizon int) (got []string, err error) {
	cursor := start
	for page := 0; ; page++ {
		if page > horizon {
			return got, fmt.Errorf("no empty cursor after %d pages", page)
		}
		var args []string
		name := "scan"
		if adv {
			name = "advscan"
		}
		if reverse {
			name = strings.Replace(name, "scan", "revscan", 1)
		}
		if adv {
			args = []string{name, "t:" + cursor, typ}
		} else {
			args = []string{name, "t:" + cursor}
		}
		if pat != "" {
			args = append(args, "match", pat)
		}
		args = append(args, "count", fmt.Sprint(count))
		res, e := s.mergeCall(args...)
		st.Pages++
		if e != nil {
			return got, e
		}
		for _, k := range res.Keys {
			ks := string(k)
			if !strings.HasPrefix(ks, "t:") {
				return got, fmt.Errorf("page %d returned %q which is not in table t", page, ks)
			}
			got = append(got, ks[2:])
		}
		nc := string(res.NextCursor)
		if nc == "" {
			return got, nil
		}
		if !adv {
			// SCAN's cursor carries the table prefix
			if !strings.HasPrefix(nc, "t:") {
				return got, fmt.Errorf("cursor %q left table t", nc)
			}
			nc = nc[2:]
		}
		if len(res.Keys) == 0 {
			return got, fmt.Errorf("non-empty cursor %q with an empty page", nc)
		}
		cursor = nc
	}
}

func chainColl(s *Store, st *ScanStats, cmd, key string, start string, count int, pat string, horizon int) (got []string, err error) {
	cursor := start
	for page := 0; ; page++ {
		if page > horizon {
			return got, fmt.Errorf("no empty cursor after %d pages", page)
		}
		args := []string{cmd, key, cursor}
		if pat != "" {
			args = append(args, "match", pat)
		}
		args = append(args, "count", fmt.Sprint(count))
		r := s.Read(args...)
		st.Pages++
		if r.Kind != "arr" || len(r.A) != 2 || r.A[1].Kind != "arr" {
			return got, fmt.Errorf("reply %v", r)
		}
		step := 1
		if strings.HasPrefix(cmd, "h") || strings.HasPrefix(cmd, "z") {
			step = 2
		}
		for i := 0; i < len(r.A[1].A); i += step {
			got = append(got, r.A[1].A[i].S)
		}
		if r.A[0].S == "" {
			return got, nil
		}
		if len(r.A[1].A) == 0 {
			return got, fmt.Errorf("non-empty cursor %q with an empty page", r.A[0].S)
		}
		cursor = r.A[0].S
	}
}

func eqStrs(a, b []string) bool {
	if len(a) != len(b) {
		return false
	}
	for i := range a {
		if a[i] != b[i] {
			return false
		}
	}
	return true
}

// RunScans: the C13 enumeration on one store.
func RunScans(s *Store, col *ev.Collector, label string, pool []string, full bool, dl ev.Deadline) (st ScanStats, complete bool) {
	ts := int64(1600000000) * 1e9
	n := len(pool)
	report := func(kind, shape string, what string, replay map[string]interface{}) {
		replay["label"] = label
		col.Add(ev.Violation{Property: "C13", Signature: "C13|" + kind + "|" + shape, What: label + ": " + what, Replay: replay})
	}
	for mask := 0; mask < 1<<n; mask++ {
		if dl.Hit() {
			return st, false
		}
		pop := subsetOf(pool, mask)
		st.Populations++
		// --- key scans per type
		s.Load(Dump{})
		for _, typ := range scanTypes {
			for _, name := range pop {
				createKey(s, ts, typ, "t", name)
			}
			for _, tb := range ScanDecoyTables {
				createKey(s, ts, typ, tb, "a")
				createKey(s, ts, typ, tb, "zz")
			}
		}
		for _, typ := range scanTypes {
			for _, adv := range []bool{false, true} {
				if !adv && typ != "KV" {
					continue // SCAN only covers kv
				}
				for count := 1; count <= len(pop)+1; count++ {
					for _, pat := range append([]string{""}, ScanPatterns...) {
						if pat != "" && !full && count != 1 && count != 2 && count != len(pop)+1 {
							continue
						}
						// key scans match the pattern against "table:key" (what the stored key is
						// called without its namespace); the oracle uses that interpretation, the
						// statement only asks for exactly the matching subset
						kpat := pat
						if pat != "" && !strings.HasPrefix(pat, "*") {
							kpat = "t:" + pat
						}
						var want []string
						for _, nme := range pop {
							if kpat == "" || glob.MustCompile(kpat).Match("t:"+nme) {
								want = append(want, nme)
							}
						}
						got, err := chainKeys(s, &st, typ, adv, false, "", count, kpat, len(pop)+3)
						st.Chains++
						if len(want) > 0 {
							st.NonEmptyChains++
						}
						if err != nil || !eqStrs(got, want) {
							cmd := "scan"
							if adv {
								cmd = "advscan " + typ
							}
							shape := fmt.Sprintf("%s|forward|match=%v", cmd, pat != "")
							report("keys", shape, fmt.Sprintf("%s over population %q count %d match %q returned %q (err %v), expected %q", cmd, pop, count, pat, got, err, want),
								map[string]interface{}{"population": pop, "cmd": cmd, "count": count, "match": pat})
						}
					}
				}
				// reverse, from an explicit upper-bound cursor (DESIGN.md C13: the empty reverse cursor has no documented meaning)
				if full || typ == "KV" || typ == "HASH" {
					for count := 1; count <= len(pop)+1; count++ {
						want := reversed(pop)
						got, err := chainKeys(s, &st, typ, adv, true, "\xff\xff\xff", count, "", len(pop)+3)
						st.Chains++
						if err != nil || !eqStrs(got, want) {
							cmd := "revscan"
							if adv {
								cmd = "advrevscan " + typ
							}
							report("keys", cmd+"|reverse", fmt.Sprintf("%s from cursor ff ff ff over population %q count %d returned %q (err %v), expected %q", cmd, pop, count, got, err, want),
								map[string]interface{}{"population": pop, "cmd": cmd, "count": count})
						}
					}
				}
			}
		}
		// --- element scans inside one collection, decoys in sibling collections and tables
		s.Load(Dump{})
		for _, c := range []struct{ cmd, rev, typ string }{{"hscan", "hrevscan", "HASH"}, {"sscan", "srevscan", "SET"}, {"zscan", "zrevscan", "ZSET"}} {
			for _, key := range []string{"t:c", "t:c:", "t:b", "t:c\x00", "s:c", "t2:c"} {
				members := []string{"a", "zz"}
				if key == "t:c" {
					members = pop
				}
				for _, m := range members {
					switch c.typ {
					case "HASH":
						s.Write(ts, "hset", key, m, "v")
					case "SET":
						s.Write(ts, "sadd", key, m)
					case "ZSET":
						s.Write(ts, "zadd", key, "1", m)
					}
				}
			}
			for count := 1; count <= len(pop)+1; count++ {
				for _, pat := range append([]string{""}, ScanPatterns...) {
					if pat != "" && !full && count != 1 && count != len(pop)+1 {
						continue
					}
					want := matching(pop, pat)
					got, err := chainColl(s, &st, c.cmd, "t:c", "", count, pat, len(pop)+3)
					st.Chains++
					if len(want) > 0 {
						st.NonEmptyChains++
					}
					if err != nil || !eqStrs(got, want) {
						report("elements", fmt.Sprintf("%s|forward|match=%v", c.cmd, pat != ""), fmt.Sprintf("%s t:c over elements %q count %d match %q returned %q (err %v), expected %q", c.cmd, pop, count, pat, got, err, want),
							map[string]interface{}{"population": pop, "cmd": c.cmd, "count": count, "match": pat})
					}
				}
				want := reversed(pop)
				got, err := chainColl(s, &st, c.rev, "t:c", "\xff\xff\xff", count, "", len(pop)+3)
				st.Chains++
				if err != nil || !eqStrs(got, want) {
					report("elements", c.rev+"|reverse", fmt.Sprintf("%s t:c from cursor ff ff ff over elements %q count %d returned %q (err %v), expected %q", c.rev, pop, count, got, err, want),
						map[string]interface{}{"population": pop, "cmd": c.rev, "count": count})
				}
			}
		}
	}
	return st, true
}
