// storemc: checks that drive the real state machine / data mapping directly (C08, C09, ...).
package main

import (
	"flag"
	"fmt"
	"os"
	"sync"
	"time"

	"github.com/youzan/ZanRedisDB/common"
	"zmc/ev"
	"zmc/servermc"
	"zmc/storemc"
)

type pol struct {
	name string
	p    common.ExpirationPolicy
	v    common.DataVersionT
}

var policies = []pol{{"local_deletion", common.LocalDeletion, common.DefaultDataVer}, {"wait_compact", common.WaitCompact, common.ValueHeaderV1}}

const T0 = int64(1600000000) * 1e9

func main() {
	prop := flag.String("prop", "C09", "")
	tier := flag.String("tier", "quick", "")
	replay := flag.String("replay", "", "")
	flag.Parse()
	if *replay != "" {
		os.Exit(storemc.Replay(*prop, *replay))
	}
	switch *prop {
	case "C08", "C09":
		os.Exit(runC0809(*prop, *tier))
	case "C13":
		os.Exit(runC13(*tier))
	case "C12":
		os.Exit(runC12(*tier))
	case "C19":
		os.Exit(runC19(*tier))
	case "C14":
		os.Exit(runC14(*tier))
	}
	fmt.Println("INFRA: unknown property", *prop)
	os.Exit(2)
}

func skipTableMeta(k string) bool {
	// per-table key counters: merge-only statistics no command handler reads back
	return len(k) > 0 && k[0] == 10
}

func runC0809(prop, tier string) int {
	quick := tier == "quick"
	col := ev.NewCollector(prop, tier, "model_checking")
	dl := ev.NewDeadline(ev.EnvDur("VERIF_BUDGET", map[bool]time.Duration{true: 150 * time.Second, false: 20 * time.Minute}[quick]))
	engines := []string{"mem-skiplist", "pebble"}
	if !quick {
		engines = []string{"mem-skiplist", "pebble", "mem-btree"} // not rocksdb: see DESIGN.md 9.1 (sandbox librocksdb aborts on its own debug assertions)
	}
	oracles := []storemc.Oracle{storemc.C09Oracle}
	if prop == "C08" {
		oracles = []storemc.Oracle{storemc.C08Oracle}
	}
	var mu sync.Mutex
	states, trans := 0, 0
	readStates, reads := 0, 0
	exhaustive := true
	var per []interface{}
	for _, eng := range engines {
		var wg sync.WaitGroup
		for _, p := range policies {
			for _, u := range storemc.AllUniverses() {
				variants := []([]string){nil}
				if prop == "C09" {
					variants = append(variants, []string{"set", "t:pre", "1"})
				}
				for _, pre := range variants {
					wg.Add(1)
					go func(p pol, u *storemc.Universe, pre []string) {
						defer wg.Done()
						depth := map[string]int{"hash": 5, "set": 5, "list": 5, "zset": 5, "kv": 5, "cross-type": 6}[u.Name]
						if quick {
							depth--
						}
						if eng != "mem-skiplist" {
							depth--
						}
						if eng == "rocksdb" {
							depth -= 2
						}
						if pre != nil {
							depth--
						}
						s := storemc.Open(storemc.Options{Engine: eng, Policy: p.p, DataVer: p.v, Leader: true})
						defer s.Destroy()
						label := fmt.Sprintf("%s/%s/%s", eng, p.name, u.Name)
						if pre != nil {
							label += "/in-batch-after-set"
						}
						t0 := time.Now()
						ors := append([]storemc.Oracle(nil), oracles...)
						readStats := func() (int, int) { return 0, 0 }
						if prop == "C08" {
							// read side: every parameterised range/rank read, once per distinct logical state
							var ro storemc.Oracle
							ro, readStats = storemc.ReadOracle()
							ors = append(ors, ro)
						}
						res := storemc.BFS(s, u, storemc.BFSOptions{MaxDepth: depth, T0: T0, StepNs: 1e9, SkipKey: skipTableMeta, Deadline: dl, InBatchPrefix: pre}, ors, col, label)
						mu.Lock()
						ls, rd := readStats()
						readStates += ls
						reads += rd
						states += res.States
						trans += res.Transitions
						if res.DeadlineHit {
							exhaustive = false
						}
						per = append(per, map[string]interface{}{"search": label, "states": res.States, "transitions": res.Transitions, "depth": res.Depth, "bound": depth,
							"fixpoint": res.Fixpoint, "deadline_hit": res.DeadlineHit, "frontier_per_level": res.Levels, "commands": len(u.Cmds), "wall_s": time.Since(t0).Seconds()})
						mu.Unlock()
						fmt.Printf("[%s] %s: states=%d transitions=%d depth=%d/%d fixpoint=%v deadline=%v %.1fs\n", prop, label, res.States, res.Transitions, res.Depth, depth, res.Fixpoint, res.DeadlineHit, time.Since(t0).Seconds())
					}(p, u, pre)
					if os.Getenv("VERIF_SERIAL") != "" {
						wg.Wait()
					}
				}
			}
		}
		wg.Wait()
	}
	col.Set("states", states)
	col.Set("transitions", trans)
	col.Set("traces_validated_against_impl", trans)
	col.Set("exhaustive", exhaustive)
	col.Set("searches", per)
	if prop == "C08" {
		col.Set("read_checks", map[string]interface{}{"distinct_logical_states": readStates, "reads_compared": reads, "score_bounds": storemc.ScoreBounds(), "lex_bounds": storemc.LexBounds(), "index_bounds": storemc.IdxBounds()})
		fmt.Printf("[C08] read side: %d reads compared with the reference in %d distinct logical states\n", reads, readStates)
	}
	col.Set("rule", "BFS over physical store states (full engine dump minus per-table key counters) of tiny per-type universes; every command instance of the alphabet is a transition applied through StateMachine.ApplyRaftRequest on the real store; oracle evaluated through the real read handlers after every transition; violating states are not expanded")
	for _, u := range storemc.AllUniverses() {
		col.Sample(map[string]interface{}{"universe": u.Name, "commands": u.Cmds})
	}
	col.Assume = []string{"leader-side argument validation is not on this path (C11 covers it on a real server)", "log timestamps increase by 1s per BFS level"}
	return col.Finish()
}

func runC13(tier string) int {
	quick := tier == "quick"
	col := ev.NewCollector("C13", tier, "exploration")
	dl := ev.NewDeadline(ev.EnvDur("VERIF_BUDGET", map[bool]time.Duration{true: 150 * time.Second, false: 20 * time.Minute}[quick]))
	engines := []string{"mem-skiplist", "pebble"}
	if !quick {
		engines = []string{"mem-skiplist", "pebble", "mem-btree"} // not rocksdb: see DESIGN.md 9.1 (sandbox librocksdb aborts on its own debug assertions)
	}
	var mu sync.Mutex
	var tot storemc.ScanStats
	exhaustive := true
	per := map[string]interface{}{}
	for _, eng := range engines {
		var wg sync.WaitGroup
		for _, p := range policies {
			wg.Add(1)
			go func(p pol) {
				defer wg.Done()
				pool := storemc.ScanPool
				if quick && eng != "mem-skiplist" {
					pool = pool[:6]
				}
				if eng == "rocksdb" {
					pool = []string{"a", "a:", "a:b", "ab", "b", "a;"}
				}
				s := storemc.Open(storemc.Options{Engine: eng, Policy: p.p, DataVer: p.v, Leader: true})
				defer s.Destroy()
				label := eng + "/" + p.name
				t0 := time.Now()
				st, ok := storemc.RunScans(s, col, label, pool, !quick || eng == "mem-skiplist", dl)
				mu.Lock()
				tot.Chains += st.Chains
				tot.Pages += st.Pages
				tot.Populations += st.Populations
				tot.NonEmptyChains += st.NonEmptyChains
				if !ok {
					exhaustive = false
				}
				per[label] = map[string]interface{}{"pool": fmt.Sprintf("%q", pool), "populations": st.Populations, "chains": st.Chains, "pages": st.Pages, "complete": ok, "wall_s": time.Since(t0).Seconds()}
				mu.Unlock()
				fmt.Printf("[C13] %s: populations=%d chains=%d pages=%d complete=%v %.1fs\n", label, st.Populations, st.Chains, st.Pages, ok, time.Since(t0).Seconds())
			}(p)
		}
		wg.Wait()
	}
	col.Set("evaluations", tot.Chains)
	col.Set("distinct_nontrivial", tot.NonEmptyChains)
	col.Set("pages", tot.Pages)
	col.Set("populations", tot.Populations)
	col.Set("exhaustive", exhaustive)
	col.Set("per_store", per)
	col.Set("rule", "every subset of the name pool is a population (decoys in neighbouring tables, every other type, sibling collections); for SCAN/ADVSCAN per type and HSCAN/SSCAN/ZSCAN: every COUNT 1..n+1, MATCH patterns, forward from the empty cursor and reverse from an explicit upper-bound cursor, chained to the empty cursor on the real handlers; non-trivial = chains whose expected result is non-empty")
	col.Sample(map[string]interface{}{"pool": fmt.Sprintf("%q", storemc.ScanPool), "decoy_tables": fmt.Sprintf("%q", storemc.ScanDecoyTables), "patterns": storemc.ScanPatterns})
	col.Sample(map[string]interface{}{"chain": "advscan ns:t: HASH count 2 -> cursor c1 -> advscan ns:t:c1 HASH count 2 -> ... -> empty cursor; concatenation must equal the sorted population"})
	col.Assume = []string{"populations are static during the iteration (the statement only constrains elements present throughout)", "node-level handlers; the cross-partition cursor merge of the server layer is exercised by C15's live server"}
	return col.Finish()
}

func runC12(tier string) int {
	quick := tier == "quick"
	col := ev.NewCollector("C12", tier, "exploration")
	dl := ev.NewDeadline(ev.EnvDur("VERIF_BUDGET", map[bool]time.Duration{true: 150 * time.Second, false: 20 * time.Minute}[quick]))
	subLen := 2
	if !quick {
		subLen = 3
	}
	t0 := time.Now()
	cs := storemc.RunCodec(col, subLen)
	fmt.Printf("[C12] codec: encodings=%d collections=%d tables=%d round-trips=%d order-pairs=%d %.1fs\n", cs.Encodings, cs.Collections, cs.Tables, cs.RoundTrips, cs.OrderPairs, time.Since(t0).Seconds())
	engines := []string{"mem-skiplist", "pebble"}
	if !quick {
		engines = []string{"mem-skiplist", "pebble", "mem-btree"} // not rocksdb: see DESIGN.md 9.1 (sandbox librocksdb aborts on its own debug assertions)
	}
	var mu sync.Mutex
	var tot storemc.IsoStats
	exhaustive := true
	per := map[string]interface{}{}
	for _, eng := range engines {
		var wg sync.WaitGroup
		for _, p := range policies {
			wg.Add(1)
			go func(p pol) {
				defer wg.Done()
				names := storemc.IsoNames
				if eng == "rocksdb" {
					names = []string{"t:a", "t:a:", "t:a:b", "t:ab", "t:a;", "ta:x", "s:a", "t:aa"}
				}
				s := storemc.Open(storemc.Options{Engine: eng, Policy: p.p, DataVer: p.v, Leader: true})
				defer s.Destroy()
				label := eng + "/" + p.name
				t0 := time.Now()
				st, ok := storemc.RunIsolation(s, col, label, names, dl)
				bigOps := storemc.RunBigClear(s, col, label)
				st.Ops += bigOps
				st.Ops += storemc.RunTableDelete(s, col, label)
				mu.Lock()
				tot.Pairs += st.Pairs
				tot.Ops += st.Ops
				tot.Changed += st.Changed
				if !ok {
					exhaustive = false
				}
				per[label] = map[string]interface{}{"ordered_pairs_checked": st.Pairs, "clears_of_a_5001_element_collection": bigOps, "operations": st.Ops, "operations_that_changed_their_target": st.Changed, "complete": ok, "wall_s": time.Since(t0).Seconds()}
				mu.Unlock()
				fmt.Printf("[C12] %s: pairs=%d ops=%d effective=%d complete=%v %.1fs\n", label, st.Pairs, st.Ops, st.Changed, ok, time.Since(t0).Seconds())
			}(p)
		}
		wg.Wait()
	}
	col.Set("evaluations", cs.Encodings+tot.Pairs)
	col.Set("distinct_nontrivial", cs.Collections+tot.Changed)
	col.Set("codec", map[string]interface{}{"encodings": cs.Encodings, "collections_with_range_check": cs.Collections, "table_ranges": cs.Tables, "round_trips": cs.RoundTrips, "memcmp_order_pairs": cs.OrderPairs})
	col.Set("store", per)
	col.Set("exhaustive", exhaustive)
	col.Set("rule", "codec: every (type, table, key, sub-key) over the alphabet {00,01,':',';',ff,'a'} (tables 1-2 bytes without ':', keys 0-2, sub-keys 0-2/3 bytes, raw and versioned keys) through the real encoders: injectivity, collection range and table range contain exactly their own elements, decode(encode)=id, memcomparable codec order and round trip over all pairs of a value pool; store: every ordered pair of distinct (type,name) from an adversarial name pool x 6 operation kinds on the first: logical and physical content of the second unchanged. non-trivial = collections with a range check + operations that did change their own target")
	col.Sample(map[string]interface{}{"alphabet": "00 01 ':' ';' ff 'a'", "store_names": fmt.Sprintf("%q", storemc.IsoNames)})
	col.Sample(map[string]interface{}{"operation_kinds": []string{"write", "delete-element", "clear", "clear-recreate", "expire", "trim-pop-all"}})
	return col.Finish()
}

func runC19(tier string) int {
	quick := tier == "quick"
	col := ev.NewCollector("C19", tier, "model_checking")
	dl := ev.NewDeadline(ev.EnvDur("VERIF_BUDGET", map[bool]time.Duration{true: 150 * time.Second, false: 20 * time.Minute}[quick]))
	engines := []string{"mem-skiplist", "pebble"}
	states, trans := 0, 0
	exhaustive := true
	var per []interface{}
	for _, eng := range engines {
		depth := 6
		if quick {
			depth = 5
		}
		if eng != "mem-skiplist" {
			depth--
		}
		s := storemc.Open(storemc.Options{Engine: eng, Policy: common.WaitCompact, DataVer: common.ValueHeaderV1, Leader: false})
		t0 := time.Now()
		st := storemc.RunSyncer(s, col, eng, depth, dl)
		s.Destroy()
		states += st.States
		trans += st.Transitions
		if st.DeadlineHit {
			exhaustive = false
		}
		per = append(per, map[string]interface{}{"engine": eng, "depth": depth, "states": st.States, "transitions": st.Transitions, "restarts": st.Restarts, "deliveries_applied": st.Applied, "deliveries_ignored": st.Ignored, "deadline_hit": st.DeadlineHit, "wall_s": time.Since(t0).Seconds()})
		fmt.Printf("[C19] %s: states=%d transitions=%d restarts=%d applied=%d ignored=%d depth=%d deadline=%v %.1fs\n", eng, st.States, st.Transitions, st.Restarts, st.Applied, st.Ignored, depth, st.DeadlineHit, time.Since(t0).Seconds())
	}
	col.Set("states", states)
	col.Set("transitions", trans)
	col.Set("traces_validated_against_impl", trans)
	col.Set("exhaustive", exhaustive)
	col.Set("searches", per)
	col.Set("rule", "state = (store dump, synced positions, receiver log tail since the last snapshot, snapshot image); transitions = deliver source entry i of cluster A or B for every i <= position+1 (stale re-sends, duplicates), overlapping batches [i..j] in one apply batch, one 'middle proposal dropped' delivery of position+2, snapshot (store dump + serialised positions as KVNode.GetSnapshot stores them), restart (restore the image, replay the own log tail with isReplaying=true); each delivery goes through the real KVNode.applyEntry; oracle: data = source prefix applied once each in order and equal to the synced index, position monotone, restart reproduces data and position")
	col.Sample(map[string]interface{}{"source_log": "5 entries per source cluster, each APPEND <entry number> to one key, one term change, strictly increasing timestamps", "path": []string{"deliver A#1", "deliver A#1", "deliver-batch A#1..3", "snapshot", "deliver A#4", "restart"}})
	col.Assume = []string{"apply seam: the receive-time filter and raft proposal of Server.ApplyRaftReqs are not on this path", "source timestamps strictly increase (equal timestamps are handled by the documented conflict check)"}
	// the receive side: Server.ApplyRaftReqs on a live single-node server
	servermc.Silence()
	if srv, err := servermc.StartWith(servermc.Opts{Port: servermc.FreeBase(), Parts: 1}); err != nil {
		fmt.Println("INFRA: cannot start the receiving server:", err)
		col.Finish()
		return 2
	} else {
		seqs, calls := servermc.RunSyncReceive(col, srv)
		srv.Stop()
		fmt.Printf("[C19] receive side (Server.ApplyRaftReqs): delivery sequences=%d calls=%d\n", seqs, calls)
		col.Set("receive_side", map[string]interface{}{"delivery_sequences": seqs, "rpc_calls": calls})
	}
	return col.Finish()
}

func runC14(tier string) int {
	quick := tier == "quick"
	col := ev.NewCollector("C14", tier, "exploration")
	dl := ev.NewDeadline(ev.EnvDur("VERIF_BUDGET", map[bool]time.Duration{true: 150 * time.Second, false: 20 * time.Minute}[quick]))
	type run struct {
		eng    string
		maxLen int
		pool   [][]string
		other  bool
	}
	runs := []run{{"mem-skiplist", 3, storemc.BackupPool[:8], true}, {"pebble", 2, storemc.BackupPool, true}}
	if !quick {
		runs = []run{{"mem-skiplist", 4, storemc.BackupPool, true}, {"pebble", 3, storemc.BackupPool, true}, {"mem-btree", 3, storemc.BackupPool, false}}
	}
	var mu sync.Mutex
	var wg sync.WaitGroup
	cases, restores, hist := 0, 0, 0
	exhaustive := true
	per := map[string]interface{}{}
	for _, r := range runs {
		for _, p := range policies {
			if r.eng != "mem-skiplist" && r.eng != "pebble" && p.name != "wait_compact" {
				continue
			}
			wg.Add(1)
			go func(r run, p pol) {
				defer wg.Done()
				label := r.eng + "/" + p.name
				t0 := time.Now()
				opt := storemc.Options{Engine: r.eng, Policy: p.p, DataVer: p.v, Leader: true, EngineWAL: true, KeepBackup: 4}
				st, ok := storemc.RunBackups(opt, col, label, r.pool, r.maxLen, r.other, dl)
				opt.KeepBackup = 8
				ic, ok2 := storemc.RunInterleaved(opt, col, label, storemc.BackupPool[:5], dl)
				// the HyperLogLog write cache between several checkpoints: its own small pool
				ic2, ok3 := storemc.RunInterleaved(opt, col, label+"/hll", storemc.HLLPool, dl)
				ic += ic2
				ok2 = ok2 && ok3
				ok = ok && ok2
				opt.KeepBackup = 2
				pc := storemc.RunPurge(opt, col, label)
				pc += ic
				mu.Lock()
				cases += st.Cases + pc
				restores += st.Restores
				hist += st.Histories
				if !ok {
					exhaustive = false
				}
				per[label] = map[string]interface{}{"histories": st.Histories, "max_len": r.maxLen, "backup_restore_cases": st.Cases, "restores": st.Restores, "purge_cases": pc, "complete": ok, "wall_s": time.Since(t0).Seconds()}
				mu.Unlock()
				fmt.Printf("[C14] %s: histories=%d (len<=%d) cases=%d restores=%d purge-cases=%d complete=%v %.1fs\n", label, st.Histories, r.maxLen, st.Cases, st.Restores, pc, ok, time.Since(t0).Seconds())
			}(r, p)
		}
		if r.eng == "mem-skiplist" || r.eng == "mem-btree" {
			wg.Wait() // the mem variant is a process-wide switch
		}
	}
	wg.Wait()
	col.Set("evaluations", cases)
	col.Set("distinct_nontrivial", hist)
	col.Set("restores", restores)
	col.Set("exhaustive", exhaustive)
	col.Set("per_store", per)
	col.Set("rule", "every command history up to the length bound from a pool with every data type, a counter, HyperLogLog adds, a TTL command, deletes and clears x every 0<=i<j<=n: apply [0,i), real RockDB.Backup, apply [i,j), real Restore (twice), re-apply [i,j); plus restore on another store after copying the checkpoint directory; oracle: logical view and physical dump after restore = recorded at the backup, replay after restore = state before the restore, every file of the checkpoint byte-identical (sha256) after later writes and restores; purge: KeepBackup=2 with the raft snapshot index recorded at 1..6 over 8 consecutive backups: the recorded checkpoint and all newer ones exist. non-trivial = distinct histories")
	col.Sample(map[string]interface{}{"pool": storemc.BackupPool})
	col.Sample(map[string]interface{}{"case": "history [incr c, pfadd p e1, hset h a 1], i=1, j=3: backup after incr; pfadd+hset; restore -> c=1, no hll, no hash; re-apply -> c=1, hll(e1), h={a:1}"})
	return col.Finish()
}
