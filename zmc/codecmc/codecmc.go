// Package codecmc: C16 — the raft stream codecs. BFS over the context state shared by the
// msgappv2 encoder/decoder pair with a message alphabet as transitions; every transition is
// encoded and decoded by the real code, every proper prefix of every frame must fail.
package codecmc

import (
	"bytes"
	"fmt"
	"strings"

	"github.com/youzan/ZanRedisDB/raft/raftpb"
	"github.com/youzan/ZanRedisDB/transport/rafthttp"
	"zmc/ev"
)

const Local, Remote = 2, 1

func grp(node, gid, rep uint64) raftpb.Group {
	return raftpb.Group{NodeId: node, GroupId: gid, RaftReplicaId: rep, Name: fmt.Sprintf("g%d", gid)}
}

// three raft groups (and two re-added replicas of the first) share the one stream between node Remote and node Local
var pairs = [][2]raftpb.Group{
	{grp(Remote, 1, 1), grp(Local, 1, 2)},
	{grp(Remote, 2, 3), grp(Local, 2, 4)},
	{grp(Remote, 3, 1), grp(Local, 3, 2)}, // same replica ids as group 1, another group
	{grp(Remote, 1, 1), grp(Local, 1, 6)}, // group 1 again, only the receiving replica id differs (replica re-added on the same node)
	{grp(Remote, 1, 5), grp(Local, 1, 2)}, // group 1 again, only the sending replica id differs
}

func ents(after uint64, n int, term uint64, size int) []raftpb.Entry {
	var es []raftpb.Entry
	for i := 0; i < n; i++ {
		d := bytes.Repeat([]byte{byte('a' + i)}, size)
		es = append(es, raftpb.Entry{Term: term, Index: after + 1 + uint64(i), Type: raftpb.EntryNormal, Data: d})
	}
	return es
}

// AppAlphabet: raft-producible MsgApp messages with tiny field domains + link heartbeat.
// Thorough widens the msgappv2 alphabet (terms 1..3, index 0..5, up to 3 entries, three commit values): the
// context state space grows with it and is still explored to its fixpoint.
var Thorough bool

func AppAlphabet() []raftpb.Message {
	var ms []raftpb.Message
	terms, indexes, counts, commits := []uint64{1, 2}, []uint64{0, 1, 2, 3}, []int{0, 1, 2}, []uint64{0, 2}
	if Thorough {
		terms, indexes, counts, commits = []uint64{1, 2, 3}, []uint64{0, 1, 2, 3, 4, 5}, []int{0, 1, 2, 3}, []uint64{0, 2, 5}
	}
	for _, p := range pairs {
		for _, term := range terms {
			for _, logTerm := range terms {
				if logTerm > term {
					continue
				}
				for _, index := range indexes {
					for _, n := range counts {
						for _, commit := range commits {
							ms = append(ms, raftpb.Message{Type: raftpb.MsgApp, From: p[0].RaftReplicaId, To: p[1].RaftReplicaId, FromGroup: p[0], ToGroup: p[1],
								Term: term, LogTerm: logTerm, Index: index, Entries: ents(index, n, term, 3), Commit: commit})
						}
					}
				}
			}
		}
	}
	ms = append(ms, rafthttp.VerifLinkHeartbeat())
	return ms
}

func same(a, b *raftpb.Message) bool {
	ab, _ := a.Marshal()
	bb, _ := b.Marshal()
	return bytes.Equal(ab, bb)
}

func desc(m *raftpb.Message) string {
	return fmt.Sprintf("%v %d(g%d@n%d)->%d(g%d@n%d) term=%d logterm=%d index=%d commit=%d entries=%d reject=%v ctx=%q snap=%d", m.Type, m.From, m.FromGroup.GroupId, m.FromGroup.NodeId, m.To, m.ToGroup.GroupId, m.ToGroup.NodeId,
		m.Term, m.LogTerm, m.Index, m.Commit, len(m.Entries), m.Reject, m.Context, m.Snapshot.Metadata.Index)
}

type Stats struct {
	States, Transitions, Truncations, Compact int
}

func stateKey(s rafthttp.VerifV2State) string { return fmt.Sprintf("%+v", s) }

// RunV2 explores the msgappv2 codec to a fixpoint of context states.
func RunV2(col *ev.Collector) Stats {
	var st Stats
	alpha := AppAlphabet()
	var wbuf bytes.Buffer
	enc := rafthttp.VerifNewV2Enc(&wbuf)
	dec := rafthttp.VerifNewV2Dec(nil, Local, Remote)
	tdec := rafthttp.VerifNewV2Dec(nil, Local, Remote)
	start := rafthttp.VerifV2State{}
	seen := map[string]bool{stateKey(start): true}
	frontier := []rafthttp.VerifV2State{start}
	report := func(sig, what string, replay interface{}) {
		col.Add(ev.Violation{Property: "C16", Signature: "C16|v2|" + sig, What: what, Replay: replay})
	}
	for len(frontier) > 0 {
		var next []rafthttp.VerifV2State
		for _, s := range frontier {
			for i := range alpha {
				m := alpha[i]
				wbuf.Reset()
				enc.SetState(s)
				if err := enc.Encode(&m); err != nil {
					report("encode-error", fmt.Sprintf("encode(%s) in state %+v: %v", desc(&m), s, err), nil)
					continue
				}
				st.Transitions++
				frame := append([]byte(nil), wbuf.Bytes()...)
				if len(frame) > 0 && frame[0] == 1 {
					st.Compact++
				}
				dec.SetState(s)
				dec.SetReader(bytes.NewReader(frame))
				got, err := dec.Decode()
				if err != nil || !same(&got, &m) {
					report("round-trip", fmt.Sprintf("in context %+v: sent {%s}, received {%s} err %v", s, desc(&m), desc(&got), err), map[string]interface{}{"state": s, "message": m})
					continue
				}
				if dec.State() != enc.State() {
					report("context-diverges", fmt.Sprintf("after {%s} in context %+v encoder holds %+v, decoder %+v", desc(&m), s, enc.State(), dec.State()), nil)
					continue
				}
				// every proper prefix must yield an error, never a message
				for cut := 0; cut < len(frame); cut++ {
					tdec.SetState(s)
					tdec.SetReader(bytes.NewReader(frame[:cut]))
					tm, terr := tdec.Decode()
					st.Truncations++
					if terr == nil {
						report("truncation-accepted", fmt.Sprintf("first %d of %d bytes of {%s} in context %+v decoded as {%s}", cut, len(frame), desc(&m), s, desc(&tm)), nil)
						break
					}
				}
				ns := enc.State()
				if k := stateKey(ns); !seen[k] {
					seen[k] = true
					next = append(next, ns)
				}
			}
		}
		frontier = next
	}
	st.States = len(seen)
	return st
}

// GeneralAlphabet: every message type through the general codec.
func GeneralAlphabet() []raftpb.Message {
	var ms []raftpb.Message
	for t := raftpb.MsgHup; t <= raftpb.MsgPreVoteResp; t++ {
		for _, p := range pairs[:2] {
			for _, term := range []uint64{0, 1, 1 << 40} {
				for _, rej := range []bool{false, true} {
					m := raftpb.Message{Type: t, From: p[0].RaftReplicaId, To: p[1].RaftReplicaId, FromGroup: p[0], ToGroup: p[1], Term: term, LogTerm: term, Index: 3, Commit: 2, Reject: rej, RejectHint: 7}
					ms = append(ms, m)
					m2 := m
					m2.Context = []byte("ctx\x00\xff")
					m2.Entries = ents(3, 2, 1, 5)
					ms = append(ms, m2)
					if t == raftpb.MsgSnap {
						m3 := m
						m3.Snapshot = raftpb.Snapshot{Data: []byte("snapdata"), Metadata: raftpb.SnapshotMetadata{Index: 9, Term: 2, ConfState: raftpb.ConfState{Nodes: []uint64{1, 2, 3}, Learners: []uint64{4}, Groups: []*raftpb.Group{&p[0], &p[1]}}}}
						ms = append(ms, m3)
					}
				}
			}
		}
	}
	return ms
}

// RunGeneral: stateless general codec, sequences of length ≤ 2 on one stream + truncations.
func RunGeneral(col *ev.Collector) Stats {
	var st Stats
	alpha := GeneralAlphabet()
	dec := rafthttp.VerifNewMsgDec(nil)
	report := func(sig, what string) {
		col.Add(ev.Violation{Property: "C16", Signature: "C16|general|" + sig, What: what})
	}
	frames := make([][]byte, len(alpha))
	for i := range alpha {
		var b bytes.Buffer
		if err := rafthttp.VerifEncodeMsg(&b, &alpha[i]); err != nil {
			report("encode-error", fmt.Sprintf("%s: %v", desc(&alpha[i]), err))
			continue
		}
		frames[i] = b.Bytes()
		st.Transitions++
		dec.SetReader(bytes.NewReader(frames[i]))
		got, err := dec.Decode()
		if err != nil || !same(&got, &alpha[i]) {
			report("round-trip", fmt.Sprintf("sent {%s}, received {%s} err %v", desc(&alpha[i]), desc(&got), err))
		}
		for cut := 0; cut < len(frames[i]); cut++ {
			dec.SetReader(bytes.NewReader(frames[i][:cut]))
			tm, terr := dec.Decode()
			st.Truncations++
			if terr == nil {
				report("truncation-accepted", fmt.Sprintf("first %d of %d bytes of {%s} decoded as {%s}", cut, len(frames[i]), desc(&alpha[i]), desc(&tm)))
				break
			}
		}
	}
	// pairs on one stream: the second message must not be affected by the first (buffer reuse)
	for i := range alpha {
		for j := range alpha {
			if frames[i] == nil || frames[j] == nil {
				continue
			}
			dec.SetReader(bytes.NewReader(append(append([]byte(nil), frames[i]...), frames[j]...)))
			a, err1 := dec.Decode()
			// keep a marshalled copy of the first before decoding the second (aliasing check)
			ab, _ := a.Marshal()
			b, err2 := dec.Decode()
			st.Transitions++
			ab2, _ := a.Marshal()
			if err1 != nil || err2 != nil || !same(&a, &alpha[i]) || !same(&b, &alpha[j]) || !bytes.Equal(ab, ab2) {
				report("sequence", fmt.Sprintf("stream {%s}{%s} decoded as {%s}{%s} err %v %v (first message changed by second decode: %v)", desc(&alpha[i]), desc(&alpha[j]), desc(&a), desc(&b), err1, err2, !bytes.Equal(ab, ab2)))
			}
		}
	}
	st.States = 1
	return st
}

// RunSizes: entry payloads around the 1 MiB buffer limit through both codecs, compact and full form.
func RunSizes(col *ev.Collector) Stats {
	var st Stats
	const lim = 1024 * 1024
	p := pairs[0]
	for _, size := range []int{0, 1, lim - 64, lim - 16, lim - 15, lim - 14, lim - 13, lim - 12, lim - 11, lim - 10, lim - 9, lim - 8, lim - 1, lim, lim + 1, lim + 17} {
		var wbuf bytes.Buffer
		enc := rafthttp.VerifNewV2Enc(&wbuf)
		dec := rafthttp.VerifNewV2Dec(&wbuf, Local, Remote)
		first := raftpb.Message{Type: raftpb.MsgApp, From: 1, To: 2, FromGroup: p[0], ToGroup: p[1], Term: 1, LogTerm: 1, Index: 0, Entries: ents(0, 1, 1, size), Commit: 0}
		second := raftpb.Message{Type: raftpb.MsgApp, From: 1, To: 2, FromGroup: p[0], ToGroup: p[1], Term: 1, LogTerm: 1, Index: 1, Entries: append(ents(1, 1, 1, size), ents(2, 1, 1, 3)...), Commit: 1}
		third := raftpb.Message{Type: raftpb.MsgApp, From: 1, To: 2, FromGroup: p[0], ToGroup: p[1], Term: 1, LogTerm: 1, Index: 3, Entries: ents(3, 1, 1, 2), Commit: 3}
		for n, m := range []raftpb.Message{first, second, third} {
			if perr := safely(func() error { return enc.Encode(&m) }); perr != nil && strings.HasPrefix(perr.Error(), "panic") {
				col.Add(ev.Violation{Property: "C16", Signature: "C16|v2|size|codec-panics", What: fmt.Sprintf("entry payload %d bytes, message %d: %v", size, n, perr)})
				break
			} else if err := perr; err != nil {
				col.Add(ev.Violation{Property: "C16", Signature: "C16|v2|size|encode-error", What: fmt.Sprintf("payload %d message %d: %v", size, n, err)})
				continue
			}
			var got raftpb.Message
			err := safely(func() (e error) { got, e = dec.Decode(); return })
			st.Transitions++
			if err != nil || !same(&got, &m) {
				col.Add(ev.Violation{Property: "C16", Signature: "C16|v2|size|round-trip", What: fmt.Sprintf("entry payload %d bytes, message %d of the stream: sent {%s} received {%s} err %v", size, n, desc(&m), desc(&got), err)})
			}
		}
		// two groups share the stream: group A appends, group B sends one message of the size under test,
		// group A continues where it stopped (its message is a continuation only in group A's context)
		{
			var xb bytes.Buffer
			xenc := rafthttp.VerifNewV2Enc(&xb)
			xdec := rafthttp.VerifNewV2Dec(&xb, Local, Remote)
			q := pairs[1]
			a1 := raftpb.Message{Type: raftpb.MsgApp, From: p[0].RaftReplicaId, To: p[1].RaftReplicaId, FromGroup: p[0], ToGroup: p[1], Term: 1, LogTerm: 1, Index: 0, Entries: ents(0, 1, 1, 3), Commit: 0}
			b1 := raftpb.Message{Type: raftpb.MsgApp, From: q[0].RaftReplicaId, To: q[1].RaftReplicaId, FromGroup: q[0], ToGroup: q[1], Term: 1, LogTerm: 1, Index: 0, Entries: ents(0, 1, 1, size), Commit: 0}
			a2 := raftpb.Message{Type: raftpb.MsgApp, From: p[0].RaftReplicaId, To: p[1].RaftReplicaId, FromGroup: p[0], ToGroup: p[1], Term: 1, LogTerm: 1, Index: 1, Entries: ents(1, 1, 1, 3), Commit: 1}
			b2 := raftpb.Message{Type: raftpb.MsgApp, From: q[0].RaftReplicaId, To: q[1].RaftReplicaId, FromGroup: q[0], ToGroup: q[1], Term: 1, LogTerm: 1, Index: 1, Entries: ents(1, 1, 1, 3), Commit: 1}
			for n, m := range []raftpb.Message{a1, b1, a2, b2} {
				if perr := safely(func() error { return xenc.Encode(&m) }); perr != nil {
					col.Add(ev.Violation{Property: "C16", Signature: "C16|v2|size|interleaved-encode", What: fmt.Sprintf("two groups, payload %d, message %d: %v", size, n, perr)})
					break
				}
				var got raftpb.Message
				err := safely(func() (e error) { got, e = xdec.Decode(); return })
				st.Transitions++
				if err != nil || !same(&got, &m) {
					col.Add(ev.Violation{Property: "C16", Signature: "C16|v2|size|interleaved-round-trip", What: fmt.Sprintf("two groups on one stream, group B's entry payload %d bytes, message %d of [A, B(big), A-continues, B-continues]: sent {%s} received {%s} err %v", size, n, desc(&m), desc(&got), err)})
					break
				}
			}
		}
		// a stream that ends inside a message of this size: every cut at the start of a top-level field of the
		// message (where a protobuf prefix is itself a well-formed message) and every cut in the first and last
		// 40 bytes must be reported as an error, never decoded as a shorter message
		{
			big := raftpb.Message{Type: raftpb.MsgApp, From: 1, To: 2, FromGroup: p[0], ToGroup: p[1], Term: 1, LogTerm: 1, Index: 0, Entries: append(ents(0, 1, 1, size), ents(1, 2, 1, 5)...), Commit: 2}
			var tb bytes.Buffer
			tenc := rafthttp.VerifNewV2Enc(&tb)
			if perr := safely(func() error { return tenc.Encode(&big) }); perr == nil {
				frame := append([]byte(nil), tb.Bytes()...)
				body, _ := big.Marshal()
				hdr := len(frame) - len(body)
				cuts := map[int]bool{}
				for c := 0; c < 40 && c < len(frame); c++ {
					cuts[c] = true
					cuts[len(frame)-1-c] = true
				}
				if hdr >= 0 && bytes.HasSuffix(frame, body) {
					for off := 0; off < len(body); {
						cuts[hdr+off] = true
						// tag varint
						tag, n := uint64(0), 0
						for sh := uint(0); off+n < len(body); sh += 7 {
							b := body[off+n]
							n++
							tag |= uint64(b&0x7f) << sh
							if b < 0x80 {
								break
							}
						}
						off += n
						switch tag & 7 {
						case 0:
							for off < len(body) && body[off] >= 0x80 {
								off++
							}
							off++
						case 1:
							off += 8
						case 5:
							off += 4
						case 2:
							l, n2 := uint64(0), 0
							for sh := uint(0); off+n2 < len(body); sh += 7 {
								b := body[off+n2]
								n2++
								l |= uint64(b&0x7f) << sh
								if b < 0x80 {
									break
								}
							}
							off += n2 + int(l)
						default:
							off = len(body)
						}
					}
				}
				for cut := range cuts {
					if cut <= 0 || cut >= len(frame) {
						continue
					}
					tdec := rafthttp.VerifNewV2Dec(bytes.NewReader(frame[:cut]), Local, Remote)
					var tm raftpb.Message
					err := safely(func() (e error) { tm, e = tdec.Decode(); return })
					st.Truncations++
					if err == nil {
						col.Add(ev.Violation{Property: "C16", Signature: "C16|v2|size|truncation-accepted", What: fmt.Sprintf("entry payload %d bytes: the first %d of %d bytes of the stream decode without error as {%s}, the message sent was {%s}", size, cut, len(frame), desc(&tm), desc(&big))})
						break
					}
				}
			}
		}
		var gb bytes.Buffer
		gdec := rafthttp.VerifNewMsgDec(&gb)
		for n, m := range []raftpb.Message{first, third, second} {
			rafthttp.VerifEncodeMsg(&gb, &m)
			got, err := gdec.Decode()
			st.Transitions++
			if err != nil || !same(&got, &m) {
				col.Add(ev.Violation{Property: "C16", Signature: "C16|general|size|round-trip", What: fmt.Sprintf("entry payload %d bytes, message %d: sent {%s} received {%s} err %v", size, n, desc(&m), desc(&got), err)})
			}
		}
	}
	return st
}

func safely(f func() error) (err error) {
	defer func() {
		if r := recover(); r != nil {
			err = fmt.Errorf("panic: %v", r)
		}
	}()
	return f()
}

// ---- corruption --------------------------------------------------------------------------

// FlipStream: the 3-message stream whose single-bit flips are enumerated.
func FlipStream(codec string) ([]byte, []raftpb.Message) {
	p := pairs[0]
	msgs := []raftpb.Message{
		{Type: raftpb.MsgApp, From: 1, To: 2, FromGroup: p[0], ToGroup: p[1], Term: 2, LogTerm: 2, Index: 1, Entries: ents(1, 1, 2, 4), Commit: 1},
		{Type: raftpb.MsgApp, From: 1, To: 2, FromGroup: p[0], ToGroup: p[1], Term: 2, LogTerm: 2, Index: 2, Entries: ents(2, 2, 2, 4), Commit: 2},
		{Type: raftpb.MsgApp, From: 1, To: 2, FromGroup: p[0], ToGroup: p[1], Term: 2, LogTerm: 2, Index: 4, Entries: nil, Commit: 4},
	}
	var b bytes.Buffer
	if codec == "v2" {
		enc := rafthttp.VerifNewV2Enc(&b)
		for i := range msgs {
			enc.Encode(&msgs[i])
		}
	} else {
		for i := range msgs {
			rafthttp.VerifEncodeMsg(&b, &msgs[i])
		}
	}
	return b.Bytes(), msgs
}

// DecodeFlipped decodes the stream with bit `bit` flipped. Outcome:
// "error" (an error before/at the damaged message, all earlier messages intact),
// "identical" (the flip did not change any decoded message), or "different: ..." .
func DecodeFlipped(codec string, bit int) string {
	stream, msgs := FlipStream(codec)
	s := append([]byte(nil), stream...)
	s[bit/8] ^= 1 << (bit % 8)
	r := bytes.NewReader(s)
	var decode func() (raftpb.Message, error)
	if codec == "v2" {
		d := rafthttp.VerifNewV2Dec(r, Local, Remote)
		decode = d.Decode
	} else {
		d := rafthttp.VerifNewMsgDec(r)
		decode = d.Decode
	}
	for i := 0; i < len(msgs)+2; i++ {
		m, err := decode()
		if err != nil {
			return "error"
		}
		if i >= len(msgs) {
			return fmt.Sprintf("different: extra message {%s}", desc(&m))
		}
		if !same(&m, &msgs[i]) {
			return fmt.Sprintf("different: message %d sent {%s} delivered {%s}", i, desc(&msgs[i]), desc(&m))
		}
		if i == len(msgs)-1 && r.Len() == 0 {
			return "identical"
		}
	}
	return "different: trailing data"
}
