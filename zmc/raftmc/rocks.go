package raftmc

import (
	"fmt"
	"os"
	"sync/atomic"

	"github.com/youzan/ZanRedisDB/engine"
	"github.com/youzan/ZanRedisDB/raft"
)

var rocksSeq uint64

func init() { engine.SetLogLevel(-1) }

// ScratchDir is where throw-away engine directories live (tmpfs).
var ScratchDir = fmt.Sprintf("/dev/shm/zrverif/raft-%d", os.Getpid())

// newRocksStorage: the production raft entry storage (raft/rocksdb_storage.go) on the
// in-memory engine, so that its caching of first/last index and its overwrite logic are
// under test without cgo cost.
func newRocksStorage(id uint64) (raft.IExtRaftStorage, engine.KVEngine) {
	n := atomic.AddUint64(&rocksSeq, 1)
	dir := fmt.Sprintf("%s/%d", ScratchDir, n)
	cfg := &engine.RockEngConfig{DataDir: dir}
	cfg.EngineType = "mem"
	cfg.DisableMergeCounter = true
	cfg.DisableWAL = true
	eng, err := engine.NewKVEng(cfg)
	if err != nil {
		panic(err)
	}
	if err := eng.OpenEng(); err != nil {
		panic(err)
	}
	return &rocksCloser{RocksStorage: raft.NewRocksStorage(id, 1, false, eng), dir: dir}, eng
}

type rocksCloser struct {
	*raft.RocksStorage
	dir string
}

func (r *rocksCloser) Close() {
	r.RocksStorage.Close()
	os.RemoveAll(r.dir)
}
