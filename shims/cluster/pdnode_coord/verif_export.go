//go:build verif

// Injected by /verif (go build -overlay); never part of the repository.
package pdnode_coord

import (
	"sync/atomic"
	"time"

	"github.com/youzan/ZanRedisDB/cluster"
)

// VerifRebalanced is getRebalancedNamespacePartitions (the layout function behind
// allocNamespaceRaftNodes and decideUnwantedRaftNode). refused = ErrNodeUnavailable.
func VerifRebalanced(ns string, partitionNum, replica int, old [][]string, nodes map[string]cluster.NodeInfo, ver string) (layout [][]string, refused bool, other string) {
	r, err := getRebalancedNamespacePartitions(ns, partitionNum, replica, old, nodes, ver)
	if err != nil {
		if err == ErrNodeUnavailable {
			return nil, true, ""
		}
		return nil, false, err.String()
	}
	return r, false, ""
}

// ---- coordinator seams (C18) -------------------------------------------------------------

// VerifZeroWaits removes the elapsed-time gates (time passing is an explorer event).
func VerifZeroWaits() {
	waitMigrateInterval = 0
	waitRemoveRemovingNodeInterval = 0
}

// VerifSetDataNodes installs the live data node set the way handleDataNodes does.
func (pdCoord *PDCoordinator) VerifSetDataNodes(nodes map[string]cluster.NodeInfo, epoch int64) {
	pdCoord.nodesMutex.Lock()
	pdCoord.dataNodes = nodes
	pdCoord.nodesMutex.Unlock()
	atomic.StoreInt64(&pdCoord.nodesEpoch, epoch)
}

// VerifCheckRound is one round of the namespace checker (checkNamespaces' body).
func (pdCoord *PDCoordinator) VerifCheckRound(waiting map[string]map[int]time.Time) {
	monitor := make(chan struct{})
	pdCoord.doCheckNamespaces(monitor, nil, waiting, true)
}

// VerifBalanceAddOnce is one attempt of the balancer to add the node the layout wants
// (addNodeToNamespaceAndWaitReady with a closed monitor channel returns after one attempt).
func (pdCoord *PDCoordinator) VerifBalanceAddOnce(ns string, pid int) error {
	nsInfo, err := pdCoord.register.GetNamespacePartInfo(ns, pid)
	if err != nil {
		return err
	}
	nodes := pdCoord.getCurrentNodes(nsInfo.Tags)
	closed := make(chan struct{})
	close(closed)
	_, err = pdCoord.dpm.addNodeToNamespaceAndWaitReady(closed, nsInfo, getNodeNameList(nodes))
	return err
}

// VerifRemoveFromNode is the operator / balancer request "remove this namespace partition from that
// node" (RemoveNamespaceFromNode without the leadership test of the API wrapper).
func (pdCoord *PDCoordinator) VerifRemoveFromNode(ns string, pid int, nid string) error {
	nsInfo, err := pdCoord.register.GetNamespacePartInfo(ns, pid)
	if err != nil {
		return err
	}
	if cerr := pdCoord.removeNamespaceFromNode(nsInfo, nid); cerr != nil {
		return cerr.ToErrorType()
	}
	return nil
}
